"""C16 -- one optimizer object can serve many contractions, in sequence or across threads.

Parts (see docs/C16.md):
  1. Coq: Props/C16.v (theorems about Model/Threads.v for every schedule / oracle / program).
  2. Correspondence: the real optimizer objects are driven by 2-3 threads under FORCED schedules
     (yield points placed from the worker at exactly the model's atomic steps); the executed
     schedule, with the recorded trial scores as oracle, is run through `Threads.observe` inside
     Coq and must reproduce the real step trace, the provenance of every returned tree, the
     slot / cache / by-thread dictionaries and the HyperOptimizer heap.  The verified checker
     `all_own_b` is evaluated on the real results as well.
  3. Oracle (content): every tree / path any query got back -- forced, sequential histories and
     free-running stress threads -- must be a complete tree / valid path of THAT query.
"""
import itertools
import json
import os
import subprocess
import sys
import time

from vlib.core import Raw, Some, Z, coq, main, standard_proof_steps

PROP = "C16"
HERE = os.path.dirname(os.path.abspath(__file__))
WORKER = os.path.join(HERE, "c16_worker.py")
KEY_STALE = "auto-uncached-stale-best"
SYMS = "abcdefghijklmnopqrstuvwxyzABCDEFGHIJKLMNOPQRSTUVWXYZ"


# ---------------------------------------------------------------------------
# generators
def rand_query(rng, n, nout=None, hyper=None):
    """connected network of n tensors, every index on two tensors (plus optional hyper index),
    a few output indices; labels are strings"""
    syms = iter(SYMS)
    inputs = [[] for _ in range(n)]
    size = {}
    order = list(range(n))
    rng.shuffle(order)
    edges = [(order[i], order[rng.randrange(i)]) for i in range(1, n)]      # random spanning tree
    extra = rng.randint(0, n)
    for _ in range(extra):
        a, b = rng.sample(range(n), 2) if n > 1 else (0, 0)
        if a != b:
            edges.append((a, b))
    for a, b in edges:
        if len(inputs[a]) >= 5 or len(inputs[b]) >= 5:
            continue
        s = next(syms)
        inputs[a].append(s)
        inputs[b].append(s)
        size[s] = rng.randint(2, 3)
    if hyper is None:
        hyper = rng.random() < 0.3
    if hyper and n >= 3:
        s = next(syms)
        for a in rng.sample(range(n), 3):
            inputs[a].append(s)
        size[s] = 2
    output = []
    nout = rng.randint(0, 2) if nout is None else nout
    for _ in range(nout):
        s = next(syms)
        inputs[rng.randrange(n)].append(s)
        size[s] = rng.randint(2, 3)
        output.append(s)
    for t in inputs:
        if not t:                       # keep every tensor attached
            s = next(syms)
            t.append(s)
            j = rng.randrange(n)
            inputs[j].append(s)
            size[s] = 2
        rng.shuffle(t)
    return {"inputs": [list(t) for t in inputs], "output": output, "size_dict": size}


def distinct_pool(rng, ns):
    """queries about pairwise DIFFERENT contractions (different N and/or output)"""
    pool = []
    for k, n in enumerate(ns):
        pool.append(rand_query(rng, n, nout=k % 3))
    return pool


# NOTE: stdout of a worker can exceed the pipe buffer; read it in a thread-less way by using files
def sweep_pool(rng, n, dims=(2, 8, 3), ring=True, nout=1):
    """queries with the SAME index structure (identical inputs and output: a ring / chain of n tensors)
    and DIFFERENT size_dict (a bond-dimension sweep), cheapest first"""
    bonds = ["b%d" % i for i in range(n if ring else n - 1)]
    inputs = [[] for _ in range(n)]
    for i, b in enumerate(bonds):
        inputs[i].append(b)
        inputs[(i + 1) % n].append(b)
    output = []
    for k in range(nout):
        o = "o%d" % k
        inputs[rng.randrange(n)].append(o)
        output.append(o)
    for t in inputs:
        rng.shuffle(t)
    pool = []
    for d in dims:
        size = {b: d for b in bonds}
        size.update({o: 2 for o in output})
        pool.append({"inputs": [list(t) for t in inputs], "output": list(output), "size_dict": size})
    return pool


def near_pool(rng, n):
    """NEAR-IDENTICAL contractions: X (a ring of n tensors with one output index), X with a scalar tensor ()
    appended last, X with the scalar first, X with the index orders of two tensors permuted, X relabelled"""
    bonds = ["b%d" % i for i in range(n)]
    X = [[] for _ in range(n)]
    for i, b in enumerate(bonds):
        X[i].append(b)
        X[(i + 1) % n].append(b)
    X[rng.randrange(n)].append("o0")
    for t in X:
        rng.shuffle(t)
    size = {b: rng.randint(2, 3) for b in bonds}
    size["o0"] = 2
    i, j = rng.sample(range(n), 2)
    perm = [list(t) for t in X]
    perm[i] = perm[i][::-1]
    perm[j] = perm[j][1:] + perm[j][:1]
    ren = {b: "r%d" % ((k * 7 + 3) % n) for k, b in enumerate(bonds)}
    ren["o0"] = "out"
    rel = [[ren[ix] for ix in t] for t in X]
    rsize = {ren[k]: v for k, v in size.items()}

    def q(inputs, output, sd):
        return {"inputs": [list(t) for t in inputs], "output": list(output), "size_dict": dict(sd)}
    return [q(X, ["o0"], size), q(X + [[]], ["o0"], size), q([[]] + X, ["o0"], size), q(perm, ["o0"], size),
            q(rel, ["out"], rsize)]


NEAR_HISTORIES = ([0, 1, 0, 2, 3, 4, 1, 2, 0], [1, 0, 2, 0, 4, 3, 1])
def perm_pool(rng, n, ring=False, nperm=3):
    """PERMUTATIONS of one tensor list: a chain (or ring) of n matrices with strongly graded bond sizes, and the same
    terms / output / sizes with the tensors listed in other orders (a positional path for one ordering is wrong for
    another by many orders of magnitude)"""
    m = n if ring else n + 1
    labels = ["x%02d" % i for i in range(m)]
    terms = [[labels[i], labels[(i + 1) % m]] for i in range(n)]
    output = [] if ring else [labels[0], labels[n]]
    size = {l: rng.choice((2, 3, 5, 30, 50, 70)) for l in labels}
    pool = [{"inputs": [list(t) for t in terms], "output": list(output), "size_dict": dict(size)}]
    for _ in range(nperm):
        order = list(range(n))
        while order == list(range(n)):
            rng.shuffle(order)
        pool.append({"inputs": [list(terms[i]) for i in order], "output": list(output), "size_dict": dict(size)})
    return pool


PERM_HISTORIES = ([0, 1, 0, 2, 3, 1], [2, 0, 1, 3, 0])
SWEEP_HISTORY = [0, 1, 2, 0, 1]      # d=2, 8, 3, 2, 8: the cheaper contraction always first


def run_batches(ctx, batches, timeout):
    out = [None] * len(batches)
    pending = list(enumerate(batches))
    running = []
    while pending or running:
        while pending and len(running) < 14:
            i, jobs = pending.pop(0)
            fin = os.path.join(ctx.scratch, "job_%d.json" % i)
            fout = os.path.join(ctx.scratch, "res_%d.txt" % i)
            ferr = os.path.join(ctx.scratch, "err_%d.txt" % i)
            with open(fin, "w") as f:
                json.dump({"jobs": jobs}, f)
            p = subprocess.Popen([sys.executable, WORKER], stdin=open(fin), stdout=open(fout, "w"),
                                 stderr=open(ferr, "w"))
            running.append((i, p, time.time(), len(jobs), fout, ferr))
        time.sleep(0.05)
        still = []
        for ent in running:
            i, p, t0, nj, fout, ferr = ent
            if p.poll() is None:
                if time.time() - t0 < timeout:
                    still.append(ent)
                    continue
                p.kill()
                p.wait()
                out[i] = [{"error": "worker timed out after %ds" % timeout}] * nj
                continue
            res = None
            for line in open(fout):
                if line.startswith("RESULT "):
                    res = json.loads(line[7:])
            if res is None:
                res = [{"error": "worker produced no result (rc %s): %s" % (p.returncode, open(ferr).read()[-1500:])}] * nj
            out[i] = res
        running = still
    return out


# ---------------------------------------------------------------------------
# Coq literals
def ranks(vals):
    fin = sorted({v for v in vals if v is not None and v != float("inf") and v == v})
    rk = {v: i for i, v in enumerate(fin)}
    return lambda v: Some(Z(rk[v])) if v in rk else None


def table(rows, conv):
    return "[" + "; ".join("(%d, (%d, (%d, %s)))" % (q, o, k, coq(conv(v))) for q, o, k, v in rows) + "]"


MODES = {"reusable": "MReusable", "auto-cached": "MAutoCached", "stale": "MAutoUncached",
         "fresh": "MAutoUncachedFresh", "preset": "MPreset"}
OWS = {False: "OwFalse", True: "OwTrue", "improved": "OwImproved"}


def model_terms(job, res, mode):
    """(lhs, rhs, checker_lhs) Coq terms for one forced run"""
    opts = job.get("opts", {})
    more = 0 if job["target"] == "reusable-rg" else max(0, opts.get("max_repeats", 1) - 1)
    if job["target"].startswith("preset:"):
        more = 127      # AutoOptimizer's default max_repeats=128
    cfg = "(mkC %s %s %s %d %s)" % (MODES[mode], OWS[opts.get("overwrite", False)],
                                    coq(bool(opts.get("cache_only", False))), more, coq(job.get("api") == "path"))
    rs = ranks([r[3] for r in res["scores"]])
    re_ = ranks([r[3] for r in res["escores"]])
    hards = res["hards"] if res["hards"] is not None else []
    orc = "(table_oracle %s %s %s %s %s)" % (
        coq(list(res["fps"])), coq([bool(h) for h in hards]),
        table(res["scores"], rs), table([r + [True] for r in res["stops"]], lambda v: bool(v)),
        table(res["escores"], re_))
    sched = coq([i for i, _ in res["trace"]])
    same = bool(job.get("same_tid"))      # nested queries: virtual threads with ONE thread id

    def mtid(i):
        return 100 if same else 100 + i
    programs = res.get("programs") or job["programs"]
    ths = "[" + "; ".join("start_thread %d %s" % (mtid(i), coq(list(p))) for i, p in enumerate(programs)) + "]"
    lhs = "observe_is %s %s %s %s" % (cfg, orc, sched, ths)
    if res.get("segments"):
        # option flips: one configuration per segment of the recorded schedule (one thread)
        segs = "[" + "; ".join("((mkC %s %s %s %d %s), repeat 0 %d)" % (
            MODES[mode], OWS[sg["ow"]], coq(bool(sg["cache_only"])), more, coq(bool(sg["call"])), sg["nsteps"])
            for sg in res["segments"]) + "]"
        lhs = "observe_segs_is %s %s %s %s" % (cfg, orc, segs, ths)
    trace = [(i, l) for i, l in res["trace"]]
    results = [[list(r) for r in rr] for rr in res["results"]]
    hheap = [list(h) for h in res["hheap"]]
    rheap = [([(100 + t, o) for t, o in slots], [(k, s) for k, s in cache]) for slots, cache in res["rheap"]]
    bythread = [(100 + t, x) for t, x in res["bythread"]]

    def lst(x, f):
        return Raw("[" + "; ".join(f(v) for v in x) + "]")
    rhs = "(%s, (%s, (%s, (%s, %s))))" % (
        coq(trace) if trace else "(@nil (nat*nat))",
        lst(results, lambda rr: "[" + "; ".join(coq(r) for r in rr) + "]") if results else "[]",
        coq(hheap) if hheap else "(@nil (list nat))",
        lst(rheap, lambda sc: "(%s, %s)" % (coq(sc[0]) if sc[0] else "(@nil (nat*nat))",
                                            coq(sc[1]) if sc[1] else "(@nil (nat*nat))")) if rheap
        else "(@nil (list (nat*nat) * list (nat*nat)))",
        coq(bythread) if bythread else "(@nil (nat*nat))")

    # the verified checker on the REAL results
    def tree_term(r):
        # r = [q, kind, ...]
        if r[1] == 9:
            return "(%d, @None tree)" % r[0]
        if r[1] == 0:
            return "(%d, Some (TSearch %d %d %d))" % (r[0], r[2], r[3], r[4])
        if r[1] == 1:
            return "(%d, Some (TDirect %d))" % (r[0], r[2])
        return "(%d, Some (TRecon %d %d))" % (r[0], r[2], r[3])
    real_ths = "[" + "; ".join(
        "mkT %d PIdle [] [%s]" % (mtid(i), "; ".join(tree_term(r) for r in rr))
        for i, rr in enumerate(res["results"])) + "]"
    chk = "all_own_b %s %s" % (orc, real_ths)
    model_terms.discipline = "observe_disciplined %s %s %s %s" % (cfg, orc, sched, ths)
    return lhs, rhs, chk


# ---------------------------------------------------------------------------
def forced_jobs(ctx, rng):
    jobs = []
    quick = ctx.quick

    def add(target, opts, pool, programs, macro, tag, api="tree"):
        jobs.append({"kind": "forced", "target": target, "opts": opts, "queries": pool,
                     "programs": programs, "macro": macro, "tag": tag + (":path" if api == "path" else ""),
                     "api": api})

    small = distinct_pool(rng, [4, 6, 5, 7])
    reusable_cfgs = [
        ("reusable-hyper", {"max_repeats": 1, "methods": ["greedy"], "optlib": "random"}),
        ("reusable-hyper", {"max_repeats": 2, "overwrite": True, "methods": ["greedy"], "optlib": "random"}),
        ("reusable-hyper", {"max_repeats": 2, "overwrite": "improved", "methods": ["greedy"], "optlib": "random"}),
        ("reusable-rg", {"max_repeats": 2}),
    ]
    # (a) every ordering of the shared accesses of two threads, one query each
    orders4 = [o for o in itertools.product((0, 1), repeat=8) if sum(o) == 4]
    for target, opts in reusable_cfgs:
        for progs, tag in (([[0], [1]], "diff"), ([[0], [0]], "same")):
            sel = orders4 if (not quick or target == "reusable-hyper" and opts.get("max_repeats") == 1) \
                else rng.sample(orders4, 24)
            for o in sel:
                add(target, opts, small, progs, [[t, "shared"] for t in o], "orderings:" + tag)
    # two queries each, second repeats the other thread's first (cache hits, overwrite paths)
    orders = [o for o in itertools.product((0, 1), repeat=10) if sum(o) == 5]
    for target, opts in reusable_cfgs:
        for o in rng.sample(orders, ctx.n(20, len(orders))):
            add(target, opts, small, [[0, 1], [1, 0]], [[t, "shared"] for t in o], "orderings:cross",
                api=rng.choice(("tree", "path")))
    auto_cfgs = [
        ("auto", {"cache": True, "optimal_cutoff": 0, "max_repeats": 1, "methods": ["greedy"], "optlib": "random"}),
        ("auto", {"cache": False, "optimal_cutoff": 0, "max_repeats": 2, "methods": ["greedy"], "optlib": "random"}),
        ("autohq", {"cache": True, "optimal_cutoff": 60, "max_repeats": 2, "methods": ["greedy"], "optlib": "random"}),
        ("autohq", {"cache": False, "optimal_cutoff": 60, "max_repeats": 1, "methods": ["greedy"], "optlib": "random"}),
    ]
    orders6 = [o for o in itertools.product((0, 1), repeat=12) if sum(o) == 6]
    for target, opts in auto_cfgs:
        for progs in ([[0], [1]], [[0, 1], [1, 0]], [[3, 0], [1, 3, 2]]):
            for o in rng.sample(orders6, ctx.n(12, 300)):
                add(target, opts, small, progs, [[t, "shared"] for t in o], "auto", api=rng.choice(("tree", "tree", "path")))
    # the string presets themselves: 'auto' / 'auto-hq' -> the module instance auto_optimize (default cutoff 250:
    # the 13/14-tensor queries take the hyper-optimizer branch, the small ones the optimal one)
    bigpool = distinct_pool(rng, [5, 13, 4, 14])
    for preset in ("preset:auto", "preset:auto-hq"):
        for progs in ([[1], [3]], [[1, 0], [3, 1]], [[0, 3, 1], [1, 2]]):
            for o in rng.sample(orders6, ctx.n(3, 40)):
                add(preset, {}, bigpool, progs, [[t, "shared"] for t in o], "preset-auto")
    # same index structure, different sizes (bond-dimension sweep), two threads
    sweep = sweep_pool(rng, 6)
    sweep_cfgs = [c for c in auto_cfgs if c[1].get("optimal_cutoff") == 0] + [
        ("autohq", {"cache": True, "optimal_cutoff": 0, "max_repeats": 2, "methods": ["greedy"], "optlib": "random"}),
        ("autohq", {"cache": False, "optimal_cutoff": 0, "max_repeats": 2, "methods": ["greedy"], "optlib": "random"}),
    ] + reusable_cfgs
    for target, opts in sweep_cfgs:
        for progs in ([[0, 1], [0, 1]], [[0, 1, 2], [2, 1]]):
            pick = orders6 if target.startswith("auto") else orders
            for o in rng.sample(pick, ctx.n(4, 60)):
                add(target, opts, sweep, progs, [[t, "shared"] for t in o], "sweep")
    # NESTED queries under the same instrumentation (one real thread; the nested queries are virtual thread 1 with
    # the same thread id): trace / provenance / state must match the model run of two same-id threads, and the
    # recorded schedule must satisfy Threads.disciplined (theorem C16_returns_own_tree_shared_ids)
    npool = distinct_pool(rng, [9, 8, 7, 4, 5, 6])
    nbase = {"max_repeats": 2, "methods": ["c16-nest-direct"], "optlib": "random"}
    for target, opts in [("reusable-hyper", dict(nbase, overwrite=ow)) for ow in (False, True, "improved")] + [
            ("auto", dict(nbase, cache=True, optimal_cutoff=0)), ("autohq", dict(nbase, cache=True, optimal_cutoff=0))]:
        for api in ("tree", "path"):
            for hist in ([0, 0, 1, 3], [1, 2, 1, 0, 4]):
                jobs.append({"kind": "nested_forced", "target": target, "opts": opts, "queries": npool,
                             "history": hist, "inner": [3, 4, 5, 0], "api": api, "same_tid": True,
                             "programs": [hist, ["nested"]], "macro": [], "tag": "nested-recorded"})
    # OPTION FLIPS on one long-lived Reusable* object (overwrite x cache_only set after warm-up x search/__call__/front end)
    fpool = distinct_pool(rng, [5, 8, 6, 7])
    fl_targets = [("reusable-hyper", {"max_repeats": 2, "methods": ["greedy"], "optlib": "random"}),
                  ("reusable-rg", {"max_repeats": 2})]

    def flips(target, opts, script, tag):
        jobs.append({"kind": "flips", "target": target, "opts": opts, "queries": fpool, "script": script,
                     "programs": [[st[1] for st in script if st[0] == "q"]], "macro": [], "tag": tag})
    for target, base in fl_targets:
        for ow in (False, True, "improved"):
            for api in ("tree", "path", "via"):
                # the shape of the red-team history: warm up A, B; cache_only := True; ask A, B, (missing) C
                flips(target, dict(base, overwrite=ow),
                      [["q", 0, api], ["q", 1, api], ["set", "cache_only", True], ["q", 0, api], ["q", 1, "tree"],
                       ["q", 2, api], ["set", "cache_only", False], ["q", 2, api], ["q", 0, "tree"]],
                      "flips:cache_only-after-warmup")
            for ow2 in (False, True, "improved"):
                flips(target, dict(base, overwrite=ow),
                      [["q", 0, "tree"], ["q", 1, "path"], ["set", "overwrite", ow2], ["q", 0, "tree"],
                       ["set", "cache_only", True], ["q", 1, "tree"], ["q", 0, "path"], ["q", 3, "tree"],
                       ["set", "overwrite", ow], ["q", 1, "via"], ["q", 0, "tree"]],
                      "flips:overwrite-then-cache_only")
        for _ in range(ctx.n(10, 120)):
            script = []
            for _k in range(rng.randint(5, 12)):
                r = rng.random()
                if r < 0.2:
                    script.append(["set", "cache_only", rng.random() < 0.6])
                elif r < 0.35:
                    script.append(["set", "overwrite", rng.choice((False, True, "improved"))])
                else:
                    script.append(["q", rng.randrange(4), rng.choice(("tree", "tree", "path", "via"))])
            if not any(st[0] == "q" for st in script):
                script.append(["q", 0, "tree"])
            flips(target, dict(base, overwrite=rng.choice((False, True, "improved"))), script, "flips:random")
    # (b) random programs, 2-3 threads, micro-step schedules
    for _ in range(ctx.n(160, 2500)):
        target, opts = rng.choice(reusable_cfgs + auto_cfgs)
        nt = rng.choice((2, 2, 3))
        progs = [[rng.randrange(4) for _ in range(rng.randint(1, 3))] for _ in range(nt)]
        macro = [[rng.randrange(nt), rng.choice(("one", "one", "shared"))] for _ in range(rng.randint(5, 40))]
        add(target, opts, small, progs, macro, "random%d" % nt, api=rng.choice(("tree", "tree", "path")))
    # (c) all full interleavings of the 7 atomic steps of two threads (thorough)
    if not quick:
        target, opts = reusable_cfgs[0]
        for o in itertools.product((0, 1), repeat=14):
            if sum(o) == 7:
                add(target, opts, small, [[0], [1]], [[t, "one"] for t in o], "full")
    return jobs


def seq_jobs(ctx, rng):
    jobs = []
    small = distinct_pool(rng, [3, 5, 8, 4, 9, 6])
    big = distinct_pool(rng, [5, 13, 9, 14, 4])
    hq = distinct_pool(rng, [5, 20, 9, 21])

    def hist(pool, n):
        h = [rng.randrange(len(pool)) for _ in range(n)]
        # always contain small-after-large and large-after-small and a repeat
        return h + [0, len(pool) - 1, 0, 1, len(pool) - 1]

    def add(target, opts, pool, api, n=4, tag=None):
        jobs.append({"kind": "seq", "target": target, "opts": opts, "queries": pool, "history": hist(pool, n),
                     "api": api, "tag": tag or target})

    for preset in ("greedy", "optimal", "eager", "opportunistic", "dp", "dynamic-programming", "optimal-outer"):
        for api in ("tree", "path"):
            add("preset:" + preset, {}, small, api)
    for api in ("tree", "path"):
        add("preset:auto", {}, big, api)
    add("preset:auto-hq", {}, big, "tree")
    add("preset:auto-hq", {}, hq, "path", n=2)
    for inst in ("auto_optimize", "greedy_optimize", "optimal_optimize"):
        add("instance:" + inst, {}, small if inst != "auto_optimize" else big, ["via", "tree", "path"])
    fast = {"max_repeats": 4}
    for cls in ("auto", "autohq"):
        for cache in (True, False):
            for cutoff in (0, None):
                o = dict(fast, cache=cache)
                if cutoff is not None:
                    o["optimal_cutoff"] = cutoff
                if cls == "autohq":
                    o["methods"] = ["greedy", "random-greedy"]
                for api in ("tree", "path", "via"):
                    add(cls, o, small if cutoff == 0 else big, api, tag="%s(cache=%s)" % (cls, cache))
    for ow in (False, True, "improved"):
        for api in ("tree", "path", ["tree", "path"]):
            add("reusable-hyper", {"max_repeats": 4, "overwrite": ow, "methods": ["greedy", "random-greedy"]}, small, api)
            add("reusable-rg", {"max_repeats": 4, "overwrite": ow}, small, api)
    add("reusable-hyper", {"max_repeats": 4, "hash_method": "b"}, small, "tree")
    add("reusable-hyper", {"max_repeats": 3, "slicing_opts": {"target_slices": 2}}, small, "tree")
    # bond-dimension sweeps: consecutive queries with identical inputs/output and different size_dict
    def add_sweep(target, opts, n, api):
        jobs.append({"kind": "seq", "target": target, "opts": opts, "queries": sweep_pool(rng, n),
                     "history": list(SWEEP_HISTORY), "api": api, "tag": "sweep:%s%s" % (
                         target, "(cache=%s)" % opts["cache"] if "cache" in opts else "")})
    for cls in ("auto", "autohq"):
        for cache in (False, True):
            o = {"cache": cache, "max_repeats": 4}
            if cls == "autohq":
                o["methods"] = ["greedy", "random-greedy"]
            for api in ("tree", "via"):
                add_sweep(cls, dict(o, optimal_cutoff=0), 8, api)
            add_sweep(cls, dict(o), 14 if cls == "auto" else 22, "tree")     # default cutoff: hyper branch
    for preset, n in (("preset:auto", 14), ("preset:auto-hq", 14), ("preset:greedy", 12), ("preset:optimal", 8),
                      ("instance:auto_optimize", 14)):
        add_sweep(preset, {}, n, "via" if preset.startswith("instance") else "tree")
    for ow in (False, True, "improved"):
        add_sweep("reusable-hyper", {"max_repeats": 4, "overwrite": ow, "methods": ["greedy", "random-greedy"]}, 12, "tree")
        add_sweep("reusable-rg", {"max_repeats": 4, "overwrite": ow}, 12, "tree")
    # permutations of one tensor list (same terms / output / sizes, tensors listed in another order): beyond belonging
    # to its query, the answer must cost what a FRESH optimizer of the same configuration gives for that query alone
    def add_perm(target, opts, n, api, det, ring=False):
        pool = perm_pool(rng, n, ring=ring)
        for h in PERM_HISTORIES:
            jobs.append({"kind": "seq", "target": target, "opts": opts, "queries": pool, "history": list(h), "api": api,
                         "solo": target.startswith(("preset:", "instance:")),
                         "fresh_check": {"deterministic": det, "factor": 1000},
                         "tag": "perm:%s%s:%s" % (target, "(cache=%s)" % opts["cache"] if "cache" in opts else "", api)})
    for api in ("tree", "path"):
        add_perm("reusable-rg", {"max_repeats": 8, "seed": 0}, 16, api, True)
        add_perm("reusable-rg", {"max_repeats": 8, "seed": 3, "overwrite": "improved"}, 12, api, True, ring=True)
        add_perm("reusable-hyper", {"max_repeats": 4, "methods": ["greedy"]}, 16, api, False)
        add_perm("reusable-hyper", {"max_repeats": 4, "methods": ["greedy"], "overwrite": True}, 12, api, False, ring=True)
        for cls in ("auto", "autohq"):
            for cache in (True, False):
                add_perm(cls, {"cache": cache, "optimal_cutoff": 0, "max_repeats": 4, "methods": ["greedy"]}, 12, api, False)
    for api in ("tree", "path", "tree_canon", "path_canon"):
        add_perm("preset:auto", {}, 16, api, False)              # 16-matrix chain: hyper branch of 'auto'
        add_perm("preset:greedy", {}, 10, api, True)
    add_perm("preset:auto-hq", {}, 16, "tree", False)
    add_perm("preset:auto-hq", {}, 26, "path", False, ring=True)
    add_perm("preset:optimal", {}, 8, "path", True)
    add_perm("instance:auto_optimize", {}, 16, "via", False)
    # near-identical contractions (X, X + trailing scalar, scalar + X, permuted index orders, relabelled) through
    # the tree AND the path interfaces; explicit hash_method='b' instances are not judged here (C14 hash-b-collision)
    def add_near(target, opts, n, api):
        pool = near_pool(rng, n)
        for h in NEAR_HISTORIES:
            # module-level objects keep their cache for the life of the process: run these histories in a process of
            # their own so that a failing history is self-contained
            jobs.append({"kind": "seq", "target": target, "opts": opts, "queries": pool, "history": list(h),
                         "solo": target.startswith(("preset:", "instance:")),
                         "api": api, "tag": "near:%s%s:%s" % (
                             target, "(cache=%s)" % opts["cache"] if "cache" in opts else "", api)})
    for api in ("tree", "path", "findpath"):
        add_near("preset:auto", {}, 16, api)
    add_near("preset:auto-hq", {}, 16, "tree")
    for api in ("path", "findpath"):
        add_near("preset:auto-hq", {}, 26, api)
    for api in ("via", "path"):
        add_near("instance:auto_optimize", {}, 16, api)
    add_near("instance:auto_hq_optimize", {}, 26, "path")
    for cls in ("auto", "autohq"):
        for cache in (True, False):
            o = {"cache": cache, "optimal_cutoff": 0, "max_repeats": 3}
            if cls == "autohq":
                o["methods"] = ["greedy", "random-greedy"]
            for api in ("tree", "path", "findpath"):
                add_near(cls, o, 8, api)
    for ow in (False, True, "improved"):
        for api in ("tree", "path"):
            add_near("reusable-hyper", {"max_repeats": 3, "overwrite": ow, "methods": ["greedy", "random-greedy"]}, 10, api)
            add_near("reusable-rg", {"max_repeats": 3, "overwrite": ow}, 10, api)
    if not ctx.quick:
        for _ in range(40):
            t, o = rng.choice([("auto", {"cache": True, "optimal_cutoff": 0, "max_repeats": 3}),
                               ("reusable-hyper", {"max_repeats": 3}), ("reusable-rg", {}),
                               ("autohq", {"cache": True, "optimal_cutoff": 0, "max_repeats": 3, "methods": ["greedy"]})])
            add(t, o, distinct_pool(rng, rng.sample(range(3, 11), 5)), rng.choice(["tree", "path", "via"]), n=8)
    return jobs


def stress_jobs(ctx, rng):
    jobs = []
    pool = distinct_pool(rng, [4, 7, 5, 9, 6])
    reps = ctx.n(6, 30)
    for target, opts in [
        ("reusable-hyper", {"max_repeats": 3, "methods": ["greedy", "random-greedy"]}),
        ("reusable-hyper", {"max_repeats": 3, "overwrite": True, "methods": ["greedy"]}),
        ("reusable-hyper", {"max_repeats": 3, "overwrite": "improved", "methods": ["greedy"]}),
        ("reusable-rg", {"max_repeats": 4}),
        ("auto", {"cache": True, "optimal_cutoff": 0, "max_repeats": 3}),
        ("auto", {"cache": True, "optimal_cutoff": 40, "max_repeats": 3}),
        ("autohq", {"cache": True, "optimal_cutoff": 0, "max_repeats": 3, "methods": ["greedy"]}),
        ("auto", {"cache": False, "optimal_cutoff": 0, "max_repeats": 3}),
        ("preset:auto", {}), ("preset:greedy", {}), ("preset:optimal", {}), ("preset:auto-hq", {}),
    ]:
        for nt in (2, 3):
            progs = [[rng.randrange(len(pool)) for _ in range(reps)] for _ in range(nt)]
            jobs.append({"kind": "stress", "target": target, "opts": opts, "queries": pool, "programs": progs,
                         "api": rng.choice(["tree", "path"]) if not target.startswith("preset") else "tree",
                         "switch": 1e-6, "timeout": 100, "tag": "stress:%s" % target})
    # bond-dimension sweeps from two free threads
    sw = sweep_pool(rng, 8)
    for target, opts in [
        ("auto", {"cache": False, "optimal_cutoff": 0, "max_repeats": 3}),
        ("auto", {"cache": True, "optimal_cutoff": 0, "max_repeats": 3}),
        ("autohq", {"cache": False, "optimal_cutoff": 0, "max_repeats": 3, "methods": ["greedy"]}),
        ("reusable-hyper", {"max_repeats": 3, "methods": ["greedy"]}),
        ("reusable-rg", {"max_repeats": 4}),
        ("preset:greedy", {}),
    ]:
        jobs.append({"kind": "stress", "target": target, "opts": opts, "queries": sw,
                     "programs": [list(SWEEP_HISTORY) * 2, list(SWEEP_HISTORY) * 2],
                     "api": "tree", "switch": 1e-6, "timeout": 100, "tag": "sweep-stress:%s" % target})
    # threads that run one after the other (thread idents get recycled)
    for target, opts in [
        ("reusable-hyper", {"max_repeats": 3, "methods": ["greedy"]}),
        ("reusable-rg", {"max_repeats": 4}),
        ("auto", {"cache": True, "optimal_cutoff": 0, "max_repeats": 3}),
        ("auto", {"cache": False, "optimal_cutoff": 0, "max_repeats": 3}),
        ("preset:auto", {}),
    ]:
        progs = [[rng.randrange(len(pool)) for _ in range(3)] for _ in range(4)]
        jobs.append({"kind": "stress", "target": target, "opts": opts, "queries": pool, "programs": progs,
                     "api": "tree", "serial": True, "timeout": 100, "tag": "serial-threads:%s" % target})
    return jobs


def nested_jobs(ctx, rng):
    """outer queries through one shared optimizer whose trial functions query THE SAME object (same thread) about
    other, uncached contractions: directly (inner search / __call__) and through the library's own
    PartitionTreeBuilder.build_divide(super_optimize=<the shared object or a preset name bound to it>)"""
    jobs = []
    pool = distinct_pool(rng, [9, 10, 8, 4, 5, 6, 7])       # outer: 0,1,2 ; inner: 3,4,5,6
    for method in ("c16-nest-direct", "c16-nest-builder"):
        base = {"max_repeats": 2, "methods": [method], "optlib": "random"}
        cfgs = [("reusable-hyper", dict(base, overwrite=ow)) for ow in (False, True, "improved")]
        cfgs += [("auto", dict(base, cache=True, optimal_cutoff=0)), ("autohq", dict(base, cache=True, optimal_cutoff=0))]
        for target, opts in cfgs:
            for bound in (False, True):
                for api in ("tree", "path"):
                    for inner_api in (("path", "tree") if method == "c16-nest-direct" else ("path",)):
                        if bound and api == "path" and inner_api == "tree":
                            continue
                        jobs.append({"kind": "nested", "target": target, "opts": opts, "queries": pool,
                                     "history": [0, 0, 1, 0, 2, 1, 3], "inner": [3, 4, 5, 6], "api": api,
                                     "inner_api": inner_api, "bound_preset": bound,
                                     "tag": "nested:%s:%s%s" % (method[4:], target, ":bound-preset" if bound else "")})
    return jobs


def sizes_jobs(ctx, rng):
    """one preset STRING through the front end (array_contract_path with its cache, array_contract_tree, find_path,
    array_contract_expression) with explicit size_dicts over ONE index structure: equal mappings in different key
    order, and permutations of the value sequence over the keys (the caches in front of the presets must key on the
    mapping, not on the value sequence)"""
    jobs = []

    def pool_for(n, ring):
        m = n if ring else n + 1
        labels = [SYMS[i] for i in range(m)]
        inputs = [[labels[i], labels[(i + 1) % m]] for i in range(n)]
        if ring:
            output = []
        else:
            output = [labels[0], labels[n]]
        vals = rng.sample([2, 3, 5, 7, 11, 13, 40, 50], m)
        base = list(zip(labels, vals))
        qs = [base]
        order2 = base[:]
        rng.shuffle(order2)
        qs.append(order2)                                             # equal mapping, other key order
        # the red-team shape: the SAME value sequence, attached to other keys (key order permuted accordingly)
        perm = labels[:]
        while perm == labels:
            rng.shuffle(perm)
        qs.append(list(zip(perm, vals)))
        perm2 = labels[1:] + labels[:1]
        qs.append(list(zip(perm2, vals)))
        vals3 = vals[:]
        rng.shuffle(vals3)
        qs.append(list(zip(labels, vals3)))                           # same key order, values permuted
        return [{"inputs": inputs, "output": output, "size_dict": dict(q)} for q in qs]

    demo = [{"inputs": [["a", "b"], ["b", "c"], ["c", "d"]], "output": ["a", "d"], "size_dict": dict(sd)} for sd in (
        [("a", 2), ("b", 50), ("c", 3), ("d", 40)], [("d", 40), ("c", 3), ("b", 50), ("a", 2)],
        [("b", 2), ("a", 50), ("d", 3), ("c", 40)], [("b", 2), ("c", 50), ("d", 3), ("a", 40)],
        [("a", 50), ("b", 2), ("c", 40), ("d", 3)])]
    presets = ["optimal", "greedy", "auto", "auto-hq", "dp", "eager", "optimal-outer"]
    for pi, preset in enumerate(presets):
        pools = [demo] + [pool_for(rng.choice((3, 4)), rng.random() < 0.4) for _ in range(ctx.n(2, 8))]
        for pool in pools:
            for api in ("cpath", "tree", "findpath", "expr"):
                hist = [0, 2, 1, 3, 4, 0, 2]
                if rng.random() < 0.5:
                    hist = [2, 0, 3, 1, 0, 4, 2]
                jobs.append({"kind": "sizes", "target": "preset:" + preset, "opts": {}, "queries": pool,
                             "programs": [[[q, api] for q in hist]], "tag": "sizes:%s:%s" % (preset, api)})
            # two threads, mixed interfaces
            progs = [[[q, rng.choice(("cpath", "cpath", "tree", "expr"))] for q in (0, 2, 1, 3)],
                     [[q, rng.choice(("cpath", "cpath", "tree", "expr"))] for q in (2, 0, 3, 4)]]
            jobs.append({"kind": "sizes", "target": "preset:" + preset, "opts": {}, "queries": pool,
                         "programs": progs, "tag": "sizes-2threads:%s" % preset})
    return jobs


def is_uncached_auto(job):
    return job["target"] in ("auto", "autohq") and job.get("opts", {}).get("cache", True) is False


def stale_match(job, b, earlier):
    """predicate of the known finding: a non-caching Auto(HQ)Optimizer handed back the tree / path of an
    EARLIER query of the same thread (its per-thread HyperOptimizer kept that query's best)"""
    if not is_uncached_auto(job) or "what" not in b:
        return False
    got = b.get("got", {})
    if "content_query" in got:
        return got["content_query"] in earlier and got["content_query"] != b["query"]
    if "path" in got:
        ns = {len(job["queries"][q]["inputs"]) for q in earlier}
        return (len(got["path"]) + 1) in ns
    return False


def run(ctx):
    if not standard_proof_steps(ctx):
        return
    rng = ctx.rng
    t0 = time.time()
    fj = forced_jobs(ctx, rng)
    sj = seq_jobs(ctx, rng)
    tj = stress_jobs(ctx, rng)
    nj = nested_jobs(ctx, rng)
    zj = sizes_jobs(ctx, rng)
    # the repro of the known finding, probed on every run (kept in corpus/C16)
    corpus = os.path.join(os.path.dirname(os.path.dirname(HERE)), "corpus", "C16")
    probes = []
    if os.path.isdir(corpus):
        for fn in sorted(os.listdir(corpus)):
            if fn.endswith(".json"):
                j = json.load(open(os.path.join(corpus, fn)))
                j["tag"] = "corpus:" + fn
                probes.append(j)
    sj = probes + sj

    def chunks(lst, n):
        return [lst[i:i + n] for i in range(0, len(lst), n)]
    fb = chunks(fj, 40)
    sj = [j for j in sj if not j.get("solo")] + [j for j in sj if j.get("solo")]
    nsolo = sum(1 for j in sj if j.get("solo"))
    sb = chunks(sj[:len(sj) - nsolo], 4) + [[j] for j in sj[len(sj) - nsolo:]]
    tb = chunks(tj, 2)
    nb = chunks(nj, 6)
    zb = [[j] for j in zj]        # the front end's caches are process-wide: one process per history
    batches = fb + sb + tb + nb + zb
    ctx.log("jobs: %d forced, %d sequential, %d stress, %d nested, %d size-dict in %d worker processes" % (
        len(fj), len(sj), len(tj), len(nj), len(zj), len(batches)))
    res = run_batches(ctx, batches, timeout=ctx.n(400, 1500))
    flat = [r for b in res for r in b]
    fres, sres = flat[:len(fj)], flat[len(fj):len(fj) + len(sj)]
    tres = flat[len(fj) + len(sj):len(fj) + len(sj) + len(tj)]
    nres = flat[len(fj) + len(sj) + len(tj):len(fj) + len(sj) + len(tj) + len(nj)]
    zres = flat[len(fj) + len(sj) + len(tj) + len(nj):]
    ctx.log("workers done in %.1fs" % (time.time() - t0))

    def strip(job):
        return {k: v for k, v in job.items()}

    # ---- content oracle on everything ------------------------------------------------------
    def report(job, r, what_kind):
        if "error" in r:
            ctx.fail("%s run could not be completed: %s" % (what_kind, r["error"]),
                     {"job": strip(job), "result": r}, found_input=False)
            return
        for b in r.get("bad", []):
            if "thread" in b and "programs" in job:
                prog = [x[0] if isinstance(x, list) else x for x in job["programs"][b["thread"]]]
                upto = b.get("step")
                earlier = set(prog if upto is None else prog[:upto])
                if job.get("serial"):      # a recycled thread ident inherits the dead thread's optimizer
                    for p_ in job["programs"][:b["thread"]]:
                        earlier |= set(p_)
            else:
                earlier = set(job.get("history", [])[:b["step"]])
            key = KEY_STALE if stale_match(job, b, earlier) else None
            if key and ctx.known_key(key):
                ctx.count("known:" + key)
            rep = {"job": strip(job), "failure": b}
            if "trace" in r:
                rep["schedule"] = r["trace"]
            ctx.fail("%s: query %r through %s(%r) got a result that does not belong to it: %s" % (
                what_kind, b.get("query"), job["target"], job.get("opts"), b.get("what") or b.get("raised")),
                rep, key=key, found_input=True)
        if r.get("idents_reused"):
            ctx.count("thread-ident-recycled")
        if r.get("alive"):
            ctx.fail("stress threads did not finish: %r" % (r["alive"],), {"job": strip(job)}, found_input=False)
        if r.get("idents_distinct") is False:
            ctx.fail("live threads shared a thread ident (hypothesis NoDup of the theorems)", {"job": strip(job)},
                     found_input=False)

    for job, r in zip(sj, sres):
        report(job, r, "sequential history")
        ctx.count("seq:" + job["tag"])
        ctx.case(("seq", job["target"], json.dumps(job.get("opts"), sort_keys=True), str(job["api"]), tuple(job["history"])),
                 nontrivial=len(set(job["history"])) >= 3, sample=None)
    for job, r in zip(nj, nres):
        report(job, r, "history with NESTED queries (a trial of the running search asks the same optimizer object)")
        ctx.count(job["tag"])
        if "error" not in r:
            ctx.count("nested-queries-made", r.get("nested_total", 0))
            if not r.get("nested_total"):
                ctx.fail("no nested query happened in a nested job (the harness does not reach the situation)",
                         {"job": strip(job), "result": r}, found_input=False)
        ctx.case(("nested", job["target"], json.dumps(job["opts"], sort_keys=True), job["api"], job["inner_api"],
                  job["bound_preset"]), nontrivial=True, sample=None)
    for job, r in zip(zj, zres):
        report(job, r, "queries with explicit size_dicts over one index structure through a preset string")
        ctx.count(job["tag"].rsplit(":", 1)[0] if job["tag"].startswith("sizes:") else "sizes-2threads")
        ctx.case(("sizes", job["target"], json.dumps(job["queries"]), json.dumps(job["programs"])), nontrivial=True,
                 sample=None)
    for job, r in zip(tj, tres):
        report(job, r, "stress run")
        ctx.count(job["tag"])
        ctx.case(("stress", job["target"], json.dumps(job.get("opts"), sort_keys=True), len(job["programs"])),
                 nontrivial=True, sample=None)

    # ---- correspondence: model vs code on the forced runs ------------------------------------
    # which model is expected for AutoOptimizer(cache=False): the one of the code as it stands (stale) unless
    # the sequential repro of the finding came out clean; the other one is tried for the runs that do not match
    probe_bad = any(r.get("bad") for job, r in zip(sj, sres)
                    if job.get("tag", "").startswith("corpus:") and is_uncached_auto(job))
    first, second = ("stale", "fresh") if probe_bad else ("fresh", "stale")
    cases = []
    owners = []     # case index -> (job index, what)
    for ji, (job, r) in enumerate(zip(fj, fres)):
        report(job, r, {"flips": "history with option flips on one long-lived object",
                        "nested_forced": "recorded history with nested queries"}.get(job["kind"], "forced interleaving"))
        if "error" in r:
            continue
        if job["target"].startswith("reusable"):
            m = "reusable"
        elif job["opts"].get("cache", True):
            m = "auto-cached"
        else:
            m = first
        lhs, rhs, chk = model_terms(job, r, m)
        cases.append(("job%d:%s" % (ji, m), "%s %s" % (lhs, rhs), "true"))
        owners.append((ji, m))
        if job.get("same_tid"):
            cases.append(("job%d:disciplined" % ji, model_terms.discipline, "true"))
            owners.append((ji, "disciplined"))
        # the verified checker must give the verdict of the content oracle
        verdict = not any("what" in b for b in r.get("bad", []))
        cases.append(("job%d:checker" % ji, chk, coq(verdict)))
        owners.append((ji, "checker"))
        labels = [l for _, l in r["trace"]]
        ctx.count("forced:" + job["tag"])
        ctx.count("forced-target:%s" % job["target"])
        for rr in r["results"]:
            for x in rr:
                ctx.count("answer:" + {0: "searched", 1: "direct", 2: "reconstructed", 9: "raised"}[x[1]])
        switches = sum(1 for a, b in zip(r["trace"], r["trace"][1:]) if a[0] != b[0])
        ctx.case(("forced", job["target"], json.dumps(job["opts"], sort_keys=True), tuple(map(tuple, job["programs"])),
                  tuple(i for i, _ in r["trace"]), job.get("api"), tuple(job.get("history", ()))),
                 nontrivial=switches >= 2 and len(labels) >= 8,
                 sample={"target": job["target"], "opts": job["opts"], "programs": job["programs"],
                         "schedule": [i for i, _ in r["trace"]], "results": r["results"]} if ji % 97 == 0 else None)
    # ---- the key function: Threads.key_a vs reusable.hash_contraction(method 'a') on pairs of queries ------------
    try:
        from cotengra.reusable import hash_contraction as real_hash
    except Exception:       # noqa: BLE001
        real_hash = None
    key_pools = [perm_pool(rng, n, ring=r) for n, r in ((5, False), (6, True), (4, False))] + \
        [near_pool(rng, 5), sweep_pool(rng, 5)]
    nkey = 0
    for pi, pool in enumerate(key_pools if real_hash else []):
        labels = sorted({ix for q in pool for t in q["inputs"] for ix in t} | {ix for q in pool for ix in q["size_dict"]})
        rank = {l: i for i, l in enumerate(labels)}

        def lit(q):
            return "%s %s %s" % (coq([[rank[ix] for ix in t] for t in q["inputs"]]) if q["inputs"] else "[]",
                                 coq([rank[ix] for ix in q["output"]]) if q["output"] else "(@nil nat)",
                                 coq([(rank[k], v) for k, v in q["size_dict"].items()]))
        pairs = [(a, b) for a in range(len(pool)) for b in range(a, len(pool))]
        model = "[" + "; ".join("key_a_eqb %s %s" % (lit(pool[a]), lit(pool[b])) for a, b in pairs) + "]"

        def rh(q):
            return real_hash(tuple(map(tuple, q["inputs"])), tuple(q["output"]), dict(q["size_dict"]), "a")
        real = [rh(pool[a]) == rh(pool[b]) for a, b in pairs]
        cases.append(("key_a:pool%d" % pi, model, coq(real)))
        owners.append((-2 - pi, "key_a"))
        nkey += len(pairs)
        ctx.count("key_a-pairs", len(pairs))
        ctx.count("key_a-equal-pairs", sum(real))
    failing = ctx.coq_cases("c16", ["Base", "Threads"], cases, chunk=60, timeout=900)
    failed = {}
    for idx, label, val in failing:
        if idx < len(owners) and owners[idx][1] == "key_a":
            ctx.fail("Threads.key_a and reusable.hash_contraction(method 'a') disagree on which queries share a cache key "
                     "(theorem C16_key_a_positional is about key_a)",
                     {"correspondence": "key_a_eqb vs equality of hash_contraction digests on all pairs of a pool",
                      "pool": key_pools[-2 - owners[idx][0]], "model_value": val}, found_input=False)
            continue
        if idx < len(owners):
            failed.setdefault(owners[idx][0], {})[owners[idx][1]] = val
        else:
            failed.setdefault(-1, {})["?"] = val
    # second chance for the non-caching Auto objects: the other model
    retry = [ji for ji in sorted(failed) if ji >= 0 and first in failed[ji]]
    cases2 = []
    for ji in retry:
        lhs, rhs, _ = model_terms(fj[ji], fres[ji], second)
        cases2.append(("job%d:%s" % (ji, second), "%s %s" % (lhs, rhs), "true"))
    failing2 = ctx.coq_cases("c16_other_model", ["Base", "Threads"], cases2, chunk=60, timeout=900) if cases2 else []
    for idx, label, val in failing2:
        if idx < len(retry):
            failed[retry[idx]][second] = val
    n_match = {"stale": 0, "fresh": 0}
    shown = 0
    for ji, (job, r) in enumerate(zip(fj, fres)):
        if "error" in r:
            continue
        f = failed.get(ji, {})
        if is_uncached_auto(job):
            if first not in f:
                n_match[first] += 1
                model_ok = True
            elif second not in f:
                n_match[second] += 1
                model_ok = True
            else:
                model_ok = False
            which = "stale/fresh"
        else:
            which = "reusable" if job["target"].startswith("reusable") else "auto-cached"
            model_ok = which not in f
        if not model_ok:
            if shown < 5:
                shown += 1
                try:
                    for m in (["stale", "fresh"] if is_uncached_auto(job) else [which]):
                        lhs, _, _ = model_terms(job, r, m)
                        f["model_observation(%s)" % m] = ctx.coq_eval(
                            ["Base", "Threads"], [lhs.replace("observe_is", "observe", 1)], timeout=120)[0]
                except Exception as e:
                    f["model_observation"] = "could not be evaluated: %r" % (e,)
            ctx.fail("model (Threads.observe, mode %s) and the real objects disagree on a forced run" % which,
                     {"job": strip(job), "real": r, "model_value": f,
                      "correspondence": "trace / provenance of answers / HyperOptimizer heap / slots+cache / by-thread dict"},
                     found_input=False)
        if "disciplined" in f:
            ctx.fail("the recorded schedule of a NESTED run violates Threads.disciplined (a nested query ran while the "
                     "outer one was between publishing its slot and fetching from it)",
                     {"job": strip(job), "schedule": r["trace"], "results": r["results"]},
                     found_input=bool(r.get("bad")))
        if "checker" in f:
            ctx.fail("verified checker all_own_b and the content oracle disagree on the answers of a real run",
                     {"job": strip(job), "results": r["results"], "schedule": r["trace"], "content_oracle": r.get("bad")},
                     found_input=False)
    if failed.get(-1):
        ctx.fail("correspondence cases could not be evaluated", {"log": failed[-1]}, found_input=False)
    n_stale, n_fresh = n_match["stale"], n_match["fresh"]
    ctx.coverage["uncached_auto_matches"] = {"model_of_current_code(MAutoUncached)": n_stale,
                                             "model_of_patched_code(MAutoUncachedFresh)": n_fresh}
    if n_stale and n_fresh:
        ctx.fail("AutoOptimizer(cache=False) matches the stale model on some runs and the fresh model on others",
                 {"stale": n_stale, "fresh": n_fresh}, found_input=False)
    if n_fresh and not n_stale and ctx.known_key(KEY_STALE):
        ctx.notes.append("AutoOptimizer(cache=False) now behaves as the patched model (MAutoUncachedFresh); "
                         "the known finding %s can be turned into `fixed:`" % KEY_STALE)
    ctx.coverage["rule"] = (
        "forced: 2-3 threads x programs of 1-3 queries over 4 different contractions through one shared "
        "ReusableHyperOptimizer (overwrite False/True/'improved') / ReusableRandomGreedyOptimizer / AutoOptimizer / "
        "AutoHQOptimizer (cache True/False); schedules = every ordering of the shared accesses of two one-query "
        "threads (same and different contraction), sampled orderings for two-query programs and the Auto objects, "
        "random micro-step schedules (thorough: all 3432 interleavings of the 7 atomic steps); non-trivial = at least "
        "two thread switches and eight steps; distinct by (object, options, programs, executed schedule).  "
        "near-identical: histories over X, X + trailing scalar, scalar + X, X with permuted index orders, X relabelled "
        "(rings of 8-26 tensors) through tree and path interfaces (paths strictly valid for the queried number of "
        "inputs, trees complete without autocompletion).  sweeps: histories d=2,8,3,2,8 over ONE index structure (ring of 6-22 tensors) with different size_dict, "
        "sequentially, forced and from free threads (tree.size_dict and the reported costs are compared with the "
        "query).  sequential: histories over 4-6 different contractions (incl. small-after-large and repeats) through every "
        "preset name, the module instances, Auto/AutoHQ x cache x cutoff, Reusable* x overwrite, by search / __call__ / "
        "array_contract_tree.  stress: 2-3 free threads, switch interval 1e-6.")
    ctx.assumptions = [
        "thread idents of live threads are distinct (checked on every threaded run)",
        "atomicity of one dict access under the GIL; pre-emption inside C code is not explored (partial: scheduler)",
        "that a path stored under a query's own fingerprint fits the query is property C14",
        "the reads of the own slot inside ReusableOptimizer.minimize are not separate model steps "
        "(they only choose the objective attached to a reconstructed tree)",
    ]
    ctx.trusted.append("c16_worker.py: yield points placed by monkeypatching (nothing in /repo changes), the controller, "
                       "the content oracle (tree.inputs/output/size_dict/N/is_complete/path validity)")


if __name__ == "__main__":
    main(PROP, run)

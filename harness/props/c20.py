"""C20 -- compressed-contraction estimates equal the exact ones when nothing is truncated.

Correspondence: tree.compressed_contract_stats(chi, order, compress_late) is run on the real
code with a recording subclass of CompressedStatsTracker substituted from outside (it notes
every tracker field and the whole HyperGraph after each step); the Coq model
(Model/HGraph.v + Model/Compressed.v: ccs_trace) is evaluated on the same network, traversal
and parameters and the two traces are compared step by step.
Oracle (independent, vlib.oracle.spec_costs): with an unbounded cap flops == exact flops,
max_size == max(largest input, largest intermediate), write == exact write + total input
size; for every cap max_size / peak_size / write <= their uncapped values; every compressed
pathfinder (run in a worker subprocess under a timeout) returns a complete tree whose
default (surface) order is children-first, certified by the verified checkers of
Model/Compressed.v evaluated inside Coq on the returned path."""
import json
import os
import subprocess
import sys
import warnings

from vlib import gen, oracle
from vlib.core import Z, coq, main, standard_proof_steps, tree_lit

PROP = "C20"
HUGE = 10 ** 18
CHIS = (1, 2, 4, 16, HUGE)
KEY_DANGLING = "compressed-flops-dangling-index"
KEY_WINDOW = "windowed-small-network"
KEY_SPAN = "greedy-span-output-simplify"
FIELDS = ("flops", "max_size", "peak_size", "write", "total_size", "total_size_post_contract", "contracted_size")


def dangling(inputs, output):
    res = set()
    for ix in {ix for t in inputs for ix in t}:
        if ix not in output and sum(t.count(ix) for t in inputs) == 1:
            res.add(ix)
    return res


def ladder_net(rng, quick):
    """a chain of tensors, neighbours joined by a double (sometimes triple) bond of unequal sizes, most tensors
    carrying their own output leg: the running intermediate grows while its multi-bond to the rest is what a
    truncating cap compresses -- the shape on which the neighbourhood bookkeeping of the tracker matters"""
    n = rng.randint(4, 6 if quick else 8)
    syms = iter(gen.SYMS)
    inputs = [[] for _ in range(n)]
    output, size_dict = [], {}
    for i in range(n):
        if rng.random() < 0.85:
            s_ = next(syms)
            inputs[i].append(s_)
            output.append(s_)
            size_dict[s_] = rng.randint(2, 3)
        if i < n - 1:
            for _ in range(3 if rng.random() < 0.2 else 2):
                s_ = next(syms)
                inputs[i].append(s_)
                inputs[i + 1].append(s_)
                size_dict[s_] = rng.randint(2, 4)
    for t in inputs:
        rng.shuffle(t)
    rng.shuffle(output)
    # sweep from one end to the other (linear path), sometimes a random path instead
    path = tuple([(0, 1)] + [(0, m - 1) for m in range(n - 1, 1, -1)])
    if rng.random() < 0.3:
        path = gen.rand_path(rng, n)
    return [tuple(t) for t in inputs], tuple(output), size_dict, path


def ordinary_net(rng, quick, connected=False):
    for _ in range(200):
        inputs, output, size_dict = gen.rand_net(rng, nmin=2, nmax=6 if quick else 8, ordinary=True,
                                                 p_disconnected=0.0 if connected else 0.15, p_size1=0.1,
                                                 dmax=4, max_ix=8)
        if any(len(set(t)) != len(t) for t in inputs):
            continue
        feats = gen.net_features(inputs, output, size_dict)
        if connected and ("disconnected" in feats or any(len(t) == 0 for t in inputs)):
            continue
        return inputs, output, size_dict, feats
    raise RuntimeError("generator could not produce an ordinary network")


def order_lit(trav):
    return coq([(sorted(p), (sorted(l), sorted(r))) for p, l, r in trav])


def run_recorded(core, tree, chi, order, late, bonds=None):
    """tree.compressed_contract_stats with a recording tracker substituted from outside; with `bonds` a
    list, every (multi)bond the run looks at -- each group of non-output edges with the same node set in
    HyperGraph.compress and in neighborhood_compress_cost -- has its combined size appended to it"""
    base = core.CompressedStatsTracker
    from cotengra.hypergraph import HyperGraph
    orig_compress, orig_ncc = HyperGraph.compress, HyperGraph.neighborhood_compress_cost

    def group_sizes(hg, edges, skip=None):
        groups = {}
        for e in dict.fromkeys(edges):
            if e not in hg.output:
                groups.setdefault(frozenset(hg.edges[e]), []).append(e)
        if skip is not None:
            groups.pop(frozenset(skip), None)
        return [oracle.prod(hg.size_dict[e] for e in es) for es in groups.values()]

    def rec_compress(self, chi, edges=None):
        bonds.extend(group_sizes(self, self.edges if edges is None else edges))
        return orig_compress(self, chi, edges)

    def rec_ncc(self, chi, nodes):
        bonds.extend(group_sizes(self, [e for n_ in nodes for e in self.get_node(n_)], skip=nodes))
        return orig_ncc(self, chi, nodes)

    class Rec(base):
        def __init__(self, hg, chi_):
            super().__init__(hg, chi_)
            self._hg = hg
            self._trace = []

        def update_post_step(self):
            super().update_post_step()
            hg = self._hg
            live = sum(oracle.prod(hg.size_dict[e] for e in es) for es in hg.nodes.values())
            if self.total_size != live and not hasattr(self, "_bad_total"):
                self._bad_total = (len(self._trace) + 1, int(self.total_size), int(live))
            self._trace.append((
                tuple(Z(getattr(self, f)) for f in FIELDS),
                [(i, [gen.IDX[e] for e in es]) for i, es in hg.nodes.items()],
                [(gen.IDX[e], list(ns)) for e, ns in hg.edges.items()],
                [(gen.IDX[e], Z(hg.size_dict[e])) for e in hg.edges],
            ))

    core.CompressedStatsTracker = Rec
    if bonds is not None:
        HyperGraph.compress, HyperGraph.neighborhood_compress_cost = rec_compress, rec_ncc
    try:
        tr = tree.compressed_contract_stats(chi=chi, order=order, compress_late=late)
    finally:
        core.CompressedStatsTracker = base
        HyperGraph.compress, HyperGraph.neighborhood_compress_cost = orig_compress, orig_ncc
    return tr, tr._trace


def check_neighborhood_model(ctx, rng):
    """HyperGraph.neighborhood_size / node_size / neighbors on hypergraphs after random contract and compress
    operations, against Model/HGraph.v (the neighbourhood INCLUDES the queried nodes themselves)"""
    from cotengra.hypergraph import HyperGraph
    cases, recs = [], []
    for ci in range(ctx.n(40, 400)):
        if ci % 4 == 3:
            inputs, output, size_dict, _ = ladder_net(rng, ctx.quick)
        else:
            inputs, output, size_dict, _ = ordinary_net(rng, ctx.quick)
        ops = []
        try:
            hg = HyperGraph(inputs, output, size_dict)
            term = "(hg_init (inputs {n}) (output {n}) (szd {n}))".format(n=gen.net_lit(inputs, output, size_dict))
            for _ in range(rng.randint(0, max(0, len(inputs) - 2))):
                if rng.random() < 0.6 and len(hg.nodes) > 2:
                    i, j = rng.sample(list(hg.nodes), 2)
                    hg.contract(i, j)
                    term = "(fst (hg_contract %d %d %s))" % (i, j, term)
                    ops.append(("contract", i, j))
                else:
                    k = rng.choice(list(hg.nodes))
                    chi = rng.choice([1, 2, 4, 16])
                    hg.compress(chi, hg.get_node(k))
                    term = "(let g := %s in hg_compress %s (get_node g %d) g)" % (term, coq(Z(chi)), k)
                    ops.append(("compress", chi, k))
            queries = [rng.sample(list(hg.nodes), rng.randint(1, min(3, len(hg.nodes)))) for _ in range(4)]
            want = [(Z(hg.neighborhood_size(q)), [Z(hg.node_size(k)) for k in q]) for q in queries]
        except Exception as e:
            # the implementation must not raise on a hypergraph reached by its own contract / compress
            ctx.fail("HyperGraph contract / compress / neighborhood_size raised %r on a hypergraph reached by "
                     "its own operations" % (e,),
                     {"inputs": inputs, "output": output, "size_dict": size_dict, "ops": ops})
            continue
        lhs = "(let g := %s in map (fun q => (neighborhood_size g q, map (hg_node_size g) q)) %s)" % (term, coq(queries))
        cases.append(("nbhd%d" % ci, lhs, coq(want)))
        recs.append({"inputs": inputs, "output": output, "size_dict": size_dict, "ops": ops, "queries": queries,
                     "implementation": [[int(a), [int(x) for x in b]] for a, b in want]})
        # independent oracle: the neighbourhood of a set of nodes = all nodes sharing an edge with one of them,
        # the nodes themselves included (when they have any edge)
        for q, (got, _) in zip(queries, want):
            nb = {k2 for k in q for e in hg.nodes[k] for k2 in hg.edges[e]}
            ref = sum(oracle.prod(hg.size_dict[e] for e in hg.nodes[k2]) for k2 in nb)
            if int(got) != ref:
                ctx.fail("HyperGraph.neighborhood_size(%r) = %d, but the nodes sharing an edge with them (themselves "
                         "included) have total size %d" % (q, int(got), ref), recs[-1])
    for idx, label, val in ctx.coq_cases("c20_neighborhood", ["Compressed"], cases, chunk=40):
        ctx.fail("HGraph.neighborhood_size / hg_node_size disagree with HyperGraph.neighborhood_size / node_size",
                 dict(recs[idx], model_value=val), found_input=False)


def check_pyset_model(ctx, rng):
    """the model's frozenset iteration order (HGraph.pyset_order) against CPython itself"""
    cases = []
    for _ in range(60):
        k = rng.randint(1, 7)
        l = rng.sample(range(0, 20), k)
        key = sorted(set(l))
        res8 = [a % 8 for a in key]
        if len(key) <= 4 and len(set(res8)) != len(res8):
            continue   # the model declares the order unknown there
        cases.append(("pyset", "pyset_order %s" % coq(key), coq((list(frozenset(l)), False))))
    for idx, label, val in ctx.coq_cases("c20_pyset", ["Compressed"], cases):
        ctx.fail("HGraph.pyset_order does not reproduce CPython's frozenset iteration order",
                 {"case": cases[idx][1], "python": cases[idx][2], "model_value": val}, found_input=False)


def run(ctx):
    if not standard_proof_steps(ctx):
        return
    import cotengra as ctg
    import cotengra.core as core

    warnings.simplefilter("ignore")
    rng = ctx.rng
    check_pyset_model(ctx, rng)
    check_neighborhood_model(ctx, rng)
    ntrees = ctx.n(70, 600)
    cases, records = [], []
    sens_terms = []
    ids_cases = []
    tree_cases = []
    copy_cases, copy_recs = [], []

    def one_tree(inputs, output, size_dict, path, label, probe=False):
        N = len(inputs)
        dang = dangling(inputs, output)
        cls = ctg.ContractionTreeCompressed if rng.random() < 0.5 else ctg.ContractionTree
        tree = cls.from_path(inputs, output, size_dict, path=path)
        nested = gen.tree_nested(tree)
        # ---- a state transfer must keep the ORDERED tree: copy() -----------------------------------------
        tc = tree.copy()
        rec_c = {"inputs": inputs, "output": output, "size_dict": size_dict, "path": [list(p) for p in path],
                 "tree_class": cls.__name__}
        trav0 = list(tree.traverse())
        if list(tc.get_ssa_path()) != list(tree.get_ssa_path()) or list(tc.traverse()) != trav0:
            ctx.fail("tree.copy() is not ordered like the original (default-order ssa path %r vs %r)" % (
                list(tc.get_ssa_path()), list(tree.get_ssa_path())), rec_c)
        else:
            ctx.count("copy_ordered")
        for chi_c in CHIS:
            for late_c in (False, True):
                a_ = tree.compressed_contract_stats(chi_c, order=tree.get_default_order(), compress_late=late_c)
                b_ = tc.compressed_contract_stats(chi_c, order=tc.get_default_order(), compress_late=late_c)
                if any(getattr(a_, f) != getattr(b_, f) for f in ("flops", "max_size", "write", "peak_size")):
                    ctx.fail("compressed stats of tree.copy() differ from the original's at chi=%r compress_late=%r: "
                             "%r vs %r" % (chi_c, late_c, [getattr(b_, f) for f in ("flops", "max_size", "write", "peak_size")],
                                           [getattr(a_, f) for f in ("flops", "max_size", "write", "peak_size")]),
                             dict(rec_c, chi=chi_c, compress_late=late_c))
        # model: the ordered tree is (tree, order) and copy is the identity on it -- the model run on the
        # ORIGINAL's traversal must reproduce the trace recorded on the COPY with its default order
        if N >= 2:
            chi_c, late_c = rng.choice(CHIS), rng.random() < 0.5
            try:
                _, trace_c = run_recorded(core, tc, chi_c, tc.get_default_order(), late_c)
                term = "ccs_trace {c} {l} (ccs_init {n}) {o}".format(c=coq(Z(chi_c)), l=coq(late_c),
                                                                    n=gen.net_lit(inputs, output, size_dict), o=order_lit(trav0))
                sens = "t_sens (cs_tr (ccs_run {c} {l} {n} {o}))".format(c=coq(Z(chi_c)), l=coq(late_c),
                                                                         n=gen.net_lit(inputs, output, size_dict), o=order_lit(trav0))
                rhs = coq([(t_[0], (t_[1], (t_[2], t_[3]))) for t_ in trace_c])
                copy_cases.append(("%s/copy/chi=%s/late=%s" % (label, chi_c, late_c), "if %s then %s else %s" % (sens, rhs, term), rhs))
                copy_recs.append(dict(rec_c, chi=chi_c, compress_late=late_c))
            except Exception as e:
                ctx.fail("compressed_contract_stats on tree.copy() raised %r" % (e,), rec_c)
        spec = oracle.spec_costs(inputs, output, size_dict, nested)
        raw = [oracle.prod(size_dict[ix] for ix in t) for t in inputs]
        netl = gen.net_lit(inputs, output, size_dict)
        scores = {nd: rng.random() for nd in tree.info}
        orders = [("dfs", "dfs"), ("surface_order", "surface_order"), ("random", lambda nd: scores[nd])]
        grid = [(chi, late) for chi in CHIS for late in (False, True)]
        coq_pick = set(rng.sample(range(len(grid) * len(orders)), 10 if not probe else 4))
        k = 0
        for oname, order in orders:
            trav = list(tree.traverse(order))
            # the traversal itself must be children-first and complete (input of the model)
            seen = set()
            okorder = len(trav) == N - 1
            for p, l, r in trav:
                okorder &= all(len(c) == 1 or c in seen for c in (l, r)) and (l | r) == p
                seen.add(p)
            rec = {"inputs": inputs, "output": output, "size_dict": size_dict, "path": [list(p) for p in path],
                   "order": oname, "tree_class": cls.__name__}
            if not okorder:
                ctx.fail("tree.traverse(%s) is not a complete children-first order" % oname, rec)
                continue
            res = {}
            bonds = {}
            for gi, (chi, late) in enumerate(grid):
                try:
                    if chi == HUGE:
                        bonds[late] = []
                    tr, trace = run_recorded(core, tree, chi, order, late, bonds=bonds[late] if chi == HUGE else None)
                except Exception as e:
                    ctx.fail("compressed_contract_stats(chi=%r, order=%s, compress_late=%r) raised %r" % (
                        chi, oname, late, e), rec)
                    k += 1
                    continue
                res[(chi, late)] = tr
                if hasattr(tr, "_bad_total"):
                    step_, got_, want_ = tr._bad_total
                    ctx.fail("after step %d of compressed_contract_stats(chi=%r, order=%s, compress_late=%r) the tracker's "
                             "total_size is %d but the live tensors of the hypergraph add up to %d (the neighbourhood "
                             "bookkeeping around compress is not exact)" % (step_, chi, oname, late, got_, want_),
                             dict(rec, chi=chi, compress_late=late))
                if k in coq_pick:
                    term = "ccs_trace {c} {l} (ccs_init {n}) {o}".format(c=coq(Z(chi)), l=coq(late), n=netl,
                                                                        o=order_lit(trav))
                    sens = "t_sens (cs_tr (ccs_run {c} {l} {n} {o}))".format(c=coq(Z(chi)), l=coq(late), n=netl,
                                                                             o=order_lit(trav))
                    rhs = coq([(t[0], (t[1], (t[2], t[3]))) for t in trace])
                    # when the model says a QR-cost depended on a set order it does not know, the
                    # flops fields are not comparable: the case then only counts as `order_unknown`
                    cases.append(("%s/%s/chi=%s/late=%s" % (label, oname, chi, late),
                                  "if %s then %s else %s" % (sens, rhs, term), rhs))
                    sens_terms.append(sens)
                    if chi == HUGE:
                        # the trees the model's run builds are the nodes the real traversal lists, and the
                        # cap satisfies the hypothesis of C20_uncapped_exact_steps
                        bigprod = oracle.prod(size_dict[ix] for ix in {ix for t in inputs for ix in t})
                        ordl = "[" + "; ".join("(%s, %s)" % (coq(len(p) == N), tree_lit(gen.tree_nested(tree, p)))
                                               for p, _, _ in trav) + "]"
                        tree_cases.append(("%s/%s/late=%s" % (label, oname, late),
                                           "(map sorted_leaves (run_trees {c} {l} (ccs_init {n}) (leaf_forest {n}) {o}), "
                                           "(Z.leb (size_of (szd {n}) (universe {n})) {c}, "
                                           "(valid_order_b {t} {ordl}, eqb (plr_of_list (map snd {ordl})) {o})))".format(
                                               c=coq(Z(chi)), l=coq(late), n=netl, o=order_lit(trav), t=tree_lit(nested),
                                               ordl=ordl),
                                           coq(([sorted(p) for p, _, _ in trav], bigprod <= HUGE, True, True))))
                    ids_cases.append(("%s/%s/chi=%s/late=%s" % (label, oname, chi, late),
                                      "ids_ok {c} {l} {n} {o}".format(c=coq(Z(chi)), l=coq(late), n=netl,
                                                                     o=order_lit(trav)), "true"))
                    records.append(dict(rec, chi=chi, compress_late=late))
                k += 1
            # ---------------- oracle ----------------------------------------------------
            for late in (False, True):
                if (HUGE, late) not in res:
                    continue
                un = res[(HUGE, late)]
                rec2 = dict(rec, compress_late=late, chi="huge")
                inter = [r[3] for r in spec["rows"]]
                want_max = max(raw + inter)
                want_write = spec["write"] + sum(raw)
                if un.max_size != want_max:
                    ctx.fail("uncapped max_size %r != largest tensor of the exact contraction %r" % (
                        un.max_size, want_max), rec2)
                if un.write != want_write:
                    ctx.fail("uncapped write %r != exact write %r + total input size %r" % (
                        un.write, spec["write"], sum(raw)), rec2)
                if un.flops != spec["flops"]:
                    # expected figure if the only difference is that leaves keep their dangling indices
                    alt = 0
                    for (S, surv, inv, size, flops), nd in zip(spec["rows"], gen.nested_postorder(nested)):
                        f = flops
                        for c in nd:
                            if isinstance(c, int):
                                f *= oracle.prod(size_dict[ix] for ix in set(inputs[c]) & dang)
                        alt += f
                    if dang and un.flops == alt:
                        ctx.count("uncapped_flops_dangling_mismatch")
                        ctx.fail("uncapped flops %r != exact flops %r: an index that lives on one tensor only and is "
                                 "not an output (%s) is counted by the hypergraph but summed away for free by the "
                                 "tree's preprocessing" % (un.flops, spec["flops"], sorted(dang)), rec2,
                                 key=KEY_DANGLING)
                    else:
                        ctx.fail("uncapped flops %r != exact flops %r" % (un.flops, spec["flops"]), rec2)
                else:
                    ctx.count("uncapped_flops_equal")
                # the boundary: a cap EQUAL to the largest (multi)bond that arises truncates nothing, so every
                # estimate must be the uncapped one (which is judged against the exact figures above)
                B = max(bonds.get(late) or [1])
                try:
                    tb, trace_b = run_recorded(core, tree, B, order, late)
                    ctx.count("boundary_runs")
                    for f in ("flops", "max_size", "write", "peak_size"):
                        if getattr(tb, f) != getattr(un, f):
                            ctx.fail("with the cap equal to the largest bond that arises (chi=%d) %s is %r, uncapped %r, "
                                     "although nothing is truncated" % (B, f, getattr(tb, f), getattr(un, f)),
                                     dict(rec2, chi=B, bonds=sorted(set(bonds.get(late) or []))))
                    if rng.random() < 0.25:
                        term = "ccs_trace {c} {l} (ccs_init {n}) {o}".format(c=coq(Z(B)), l=coq(late), n=netl, o=order_lit(trav))
                        sens = "t_sens (cs_tr (ccs_run {c} {l} {n} {o}))".format(c=coq(Z(B)), l=coq(late), n=netl, o=order_lit(trav))
                        rhs = coq([(t_[0], (t_[1], (t_[2], t_[3]))) for t_ in trace_b])
                        cases.append(("%s/%s/chi=maxbond%d/late=%s" % (label, oname, B, late),
                                      "if %s then %s else %s" % (sens, rhs, term), rhs))
                        sens_terms.append(sens)
                        ids_cases.append(("%s/%s/chi=maxbond%d/late=%s" % (label, oname, B, late),
                                          "ids_ok {c} {l} {n} {o}".format(c=coq(Z(B)), l=coq(late), n=netl, o=order_lit(trav)), "true"))
                        records.append(dict(rec, chi=B, compress_late=late))
                except Exception as e:
                    ctx.fail("compressed_contract_stats(chi=%r) raised %r" % (B, e), rec2)
                for chi in CHIS[:-1]:
                    if (chi, late) not in res:
                        continue
                    c = res[(chi, late)]
                    for f in ("max_size", "peak_size", "write"):
                        if getattr(c, f) > getattr(un, f):
                            ctx.fail("capped %s %r (chi=%d) exceeds the uncapped value %r" % (
                                f, getattr(c, f), chi, getattr(un, f)), dict(rec2, chi=chi))
                    if c.max_size > c.peak_size:
                        ctx.fail("max_size %r > peak_size %r" % (c.max_size, c.peak_size), dict(rec2, chi=chi))
                    ctx.count("monotonicity_checks", 3)

    for ti in range(ntrees):
        inputs, output, size_dict, feats = ordinary_net(rng, ctx.quick)
        r = rng.random()
        if r < 0.5:
            # strip dangling indices so that half of the networks are "graphs, hyper-edges, output indices" only
            d = dangling(inputs, output)
            inputs = [tuple(ix for ix in t if ix not in d) for t in inputs]
            feats = gen.net_features(inputs, output, size_dict)
        elif r < 0.65:
            # deliberately hang a summed index on one tensor (finding compressed-flops-dangling-index)
            s = gen.SYMS[len(size_dict)]
            size_dict[s] = rng.randint(2, 3)
            k = rng.randrange(len(inputs))
            inputs = [tuple(list(t) + [s]) if i == k else t for i, t in enumerate(inputs)]
            feats = gen.net_features(inputs, output, size_dict)
        path = gen.rand_path(rng, len(inputs))
        if ti % 6 == 5:
            inputs, output, size_dict, path = ladder_net(rng, ctx.quick)
            feats = gen.net_features(inputs, output, size_dict)
            ctx.count("ladder")
        for f in feats:
            ctx.count(f)
        if dangling(inputs, output):
            ctx.count("dangling")
        ctx.case((inputs, output, tuple(sorted(size_dict.items())), path),
                 nontrivial=len(inputs) >= 3,
                 sample={"inputs": inputs, "output": output, "size_dict": size_dict, "path": path} if ti < 3 else None)
        try:
            one_tree(inputs, output, size_dict, path, "t%d" % ti)
        except Exception as e:
            # the implementation (or an observation of it) raised on a valid network / tree: a failure with
            # this input, not a harness crash that hides the remaining cases
            import traceback
            ctx.fail("estimating a valid tree raised %r" % (e,),
                     {"inputs": inputs, "output": output, "size_dict": size_dict, "path": path,
                      "traceback": traceback.format_exc()[-1500:]})

    # pinned probe of the dangling-index discrepancy (runs every time)
    one_tree([("a", "b"), ("b", "c")], ("c",), {"a": 2, "b": 3, "c": 5}, ((0, 1),), "probe", probe=True)

    failing = ctx.coq_cases("c20_trace", ["Compressed"], cases, chunk=40, timeout=900)
    for idx, label, val in failing:
        rec = dict(records[idx]) if idx < len(records) else {}
        rec.update(model_value=val, case=label,
                   correspondence="Model/Compressed.v ccs_trace vs compressed_contract_stats with a recording tracker")
        ctx.fail("model and implementation disagree on the compressed-contraction trace", rec, found_input=False)
    for idx, label, val in ctx.coq_cases("c20_copy", ["Compressed"], copy_cases, chunk=40, timeout=900):
        ctx.fail("copy does not preserve the ordered tree: the model run on the original's (tree, order) does not reproduce "
                 "the trace recorded on tree.copy()", dict(copy_recs[idx], model_value=val, case=label), found_input=False)
    # hypothesis of the peak / total_size theorems, evaluated for every compared run
    for idx, label, val in ctx.coq_cases("c20_ids_ok", ["Compressed", "CompressedPeakFacts"], ids_cases, chunk=60, timeout=900):
        rec = dict(records[idx]) if idx < len(records) else {}
        rec.update(model_value=val, case=label)
        ctx.fail("ids_ok (hypothesis of C20_total_size_is_sum_of_node_sizes / C20_capped_le_uncapped_peak) is false "
                 "for a traversal the real tree produced", rec, found_input=False)
    for idx, label, val in ctx.coq_cases("c20_run_trees", ["Compressed", "NetFacts", "CompressedExactFacts", "ExecOrderFacts", "CompressedTreeFacts"], tree_cases, chunk=40, timeout=900):
        ctx.fail("hypotheses of C20_uncapped_exact_steps / C20_uncapped_eq_exact_same_tree fail on a real traversal "
                 "(run_trees leaf sets, cap bound, valid_order_b of the real order, plr_of_list of it)", {"case": label, "model_value": val}, found_input=False)
    # how many of the compared traces were (partly) outside the model because of an unknown set order
    try:
        flags = ctx.coq_eval(["Compressed"], ["[%s]" % "; ".join(sens_terms[i:i + 60])
                                              for i in range(0, len(sens_terms), 60)], timeout=900)
        ctx.count("order_unknown_traces", sum(f.count("true") for f in flags))
        ctx.count("compared_traces", len(sens_terms))
    except Exception as e:   # only a statistic
        ctx.notes.append("could not count order-unknown traces: %r" % (e,))

    # ---------------- compressed pathfinders ------------------------------------------
    methods = ["direct-greedy-compressed", "direct-greedy-span", "hyper:greedy-compressed", "hyper:greedy-span",
               "hyper:kahypar-agglom", "windowed", "windowed-default", "array_contract_tree", "hyper-reconf", "twins"]
    nnets = ctx.n(8, 60)
    jobs = []
    for _ in range(nnets):
        inputs, output, size_dict, feats = ordinary_net(rng, ctx.quick, connected=True)
        for m in methods:
            jobs.append({"inputs": [list(t) for t in inputs], "output": list(output), "size_dict": size_dict,
                         "method": m, "seed": rng.randrange(2 ** 30), "chi": rng.choice([2, 4, 16]),
                         "window_size": rng.choice([2, 3, 4, 6])})
    # pinned probe of finding greedy-span-output-simplify (a star with three output legs)
    jobs.append({"inputs": [["a", "p"], ["b", "q"], ["c", "r"], ["p", "q", "r"]], "output": ["a", "b", "c"],
                 "size_dict": {k: 2 for k in "abcpqr"}, "method": "direct-greedy-span", "seed": 0, "chi": 4,
                 "window_size": 4})
    fcases, frecs = [], []
    env = dict(os.environ)
    for bi in range(0, len(jobs), 32):
        batch = jobs[bi: bi + 32]
        try:
            p = subprocess.run([sys.executable, os.path.join(os.path.dirname(__file__), "c20_worker.py")],
                               input=json.dumps(batch), capture_output=True, text=True, timeout=300, env=env)
            outs = json.loads(p.stdout)
        except subprocess.TimeoutExpired:
            ctx.fail("a compressed pathfinder did not return within 300 s on a batch of small networks",
                     {"jobs": batch})
            continue
        except Exception as e:
            ctx.fail("compressed pathfinder worker failed: %r" % (e,), {"jobs": batch, "stderr": p.stderr[-2000:]})
            continue
        for job, out in zip(batch, outs):
            ctx.count("finder:" + job["method"])
            N = len(job["inputs"])
            if "error" in out:
                ws = job["window_size"] if job["method"] == "windowed" else 20
                key = None
                if job["method"].startswith("windowed") and N < ws and out["error"].startswith("KeyError(-"):
                    key = KEY_WINDOW
                # greedy-span: >= 3 tensors carry output indices and their sub-network has an index that sits
                # on one of them only and is not an output (-> a single-term step in the sub-path)
                onodes = [t for t in job["inputs"] if set(t) & set(job["output"])]
                sub_dangling = any(ix not in job["output"] and sum(t.count(ix) for t in onodes) == 1
                                   for t in onodes for ix in t)
                if job["method"].endswith("greedy-span") and len(onodes) >= 3 and sub_dangling and out["error"] in (
                        "ValueError('not enough values to unpack (expected 2, got 1)')", "KeyError('tree')"):
                    key = KEY_SPAN
                ctx.fail("compressed pathfinder %s raised %s" % (job["method"], out["error"]), job, key=key)
                continue
            if job["method"] == "twins":
                for tw in out["twins"]:
                    ctx.count("twin:" + tw["refiner"])
                    if not (tw["returns_self"] and tw["complete_in"] and tw["ssa_in"] == tw["ssa_out"] and tw["same_stats"]):
                        ctx.fail("in-place %s_ and out-of-place %s (same start, same seed) disagree: the in-place tree is "
                                 "not the ORDERED tree the refiner found (same ssa path: %r, same compressed stats at all "
                                 "chi: %r)" % (tw["refiner"], tw["refiner"], tw["ssa_in"] == tw["ssa_out"], tw["same_stats"]),
                                 dict(job, returned=tw))
                continue
            if not (out["copy_same_ssa"] and out["copy_same_traverse"] and out["copy_same_stats"]):
                ctx.fail("tree.copy() of what compressed pathfinder %s returned is not the same ORDERED tree (same ssa "
                         "path: %r, same surface traversal: %r, same compressed stats at all chi: %r)" % (
                             job["method"], out["copy_same_ssa"], out["copy_same_traverse"], out["copy_same_stats"]),
                         dict(job, returned=out))
            if not out["rebuilt_same_stats"]:
                ctx.fail("the tree %s returned and the tree rebuilt with from_path(its ssa path) have different "
                         "compressed stats" % job["method"], dict(job, returned=out))
            if job["method"] == "hyper-reconf":
                a, b = out["hyper_best_score"], out["hyper_rebuilt_score"]
                if a != b:
                    ctx.fail("HyperCompressedOptimizer(reconf_opts=...) recorded (peak, flops, write) = %r for its best trial, "
                             "the ordered tree rebuilt from the returned ssa path gives %r" % (a, b), dict(job, returned=out))
            kids = {frozenset(p): (frozenset(l), frozenset(r)) for p, l, r in out["children"]}
            # independent completeness test (structure only)
            ok = out["N"] == N and out["is_complete"] and len(kids) == N - 1
            stack, leaves = [frozenset(range(N))], []
            while stack and ok:
                x = stack.pop()
                if len(x) == 1:
                    leaves.append(next(iter(x)))
                elif x not in kids or (kids[x][0] | kids[x][1]) != x or (kids[x][0] & kids[x][1]):
                    ok = False
                else:
                    stack.extend(kids[x])
            ok = ok and sorted(leaves) == list(range(N))
            trav = [(frozenset(p), frozenset(l), frozenset(r)) for p, l, r in out["traverse"]]
            seen = set()
            ordered = len(trav) == N - 1 and {t[0] for t in trav} == set(kids)
            for p, l, r in trav:
                ordered = ordered and kids.get(p) in ((l, r), (r, l)) and all(len(c) == 1 or c in seen for c in (l, r))
                seen.add(p)
            if not (ok and ordered):
                ctx.fail("compressed pathfinder %s returned an incomplete or badly ordered tree (complete=%r, "
                         "children-first surface order=%r, class=%s)" % (job["method"], ok, ordered, out["cls"]),
                         dict(job, returned=out))
            pairs = [tuple(s) for s in out["ssa_surface"]]
            fcases.append((job["method"],
                           "(ssa_path_complete_b %d %s, children_first_b %s)" % (
                               N, coq(pairs) if all(len(s) == 2 for s in pairs) else "[]",
                               coq([(sorted(p), (sorted(l), sorted(r))) for p, l, r in trav])),
                           "(true, true)"))
            frecs.append(dict(job, returned=out))
    for idx, label, val in ctx.coq_cases("c20_finders", ["Compressed"], fcases, chunk=60):
        ctx.fail("the verified checkers reject what compressed pathfinder %s returned" % label,
                 dict(frecs[idx], model_value=val))
    ctx.coverage["rule"] = ("ordinary random networks (2..6/8 tensors, no repeated index inside a tensor; hyper-edges, "
                            "output indices, multi-bonds, size-1 dims; half with, half without dangling indices), one "
                            "uniform random path each, tree class ContractionTree or ContractionTreeCompressed; orders "
                            "dfs / surface_order / random callable x compress_late x chi in {1,2,4,16,1e18} all judged "
                            "by the oracle, 10 of the 30 runs per tree compared step by step with the Coq model; "
                            "finders: 7 ways of calling the compressed pathfinders on connected networks")
    ctx.assumptions = ["the traversal order (tree.traverse(order)) is an input of the model; it is only checked to be "
                       "a complete children-first order",
                       "neighborhood_compress_cost iterates a frozenset of node ids while re-binding `da`: the model "
                       "reproduces CPython's order for ids without slot collisions and flags the rest "
                       "(order_unknown_traces) instead of comparing flops there",
                       "the pathfinders' heuristics (float scores, heaps, kahypar) are not modelled: their RESULT is "
                       "judged by verified checkers",
                       "correspondence is executed, not proved (hand-written model)"]


if __name__ == "__main__":
    main(PROP, run)

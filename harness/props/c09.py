"""C09 -- the 'optimal' pathfinder really is optimal.

Correspondence (model = coq/Model/Optimal.v, evaluated inside coqc by vm_compute):
  K1  ContractionProcessor.optimize_optimal_connected on arbitrary processor states
      (perverse networks, with/without simplify, every connected group): the ssa pairs it
      appends and, for small groups, the full sequence of cost-function calls
      (temp_legs, iscore, jscore, temp_legs', new_score) recorded by wrapping
      parse_minimize_for_optimal from the outside -- against optimal_connected[_tr].
  K2  the public optimize_optimal / OptimalOptimizer on networks satisfying the property's
      precondition: model optimum (incl. proc_init) == independently evaluated cost of
      the returned path, same ssa path, == Coq spec score of the returned tree, tree
      admissible, and (n <= 6/7) == brute_min over the enumerated (2n-3)!! trees in Coq.
Oracle: independent Python enumeration of all (2n-3)!! trees with a cost evaluator written
from the property text; cost of the returned path must equal the minimum.
"""
import json
import os
import subprocess
import sys
import time

PROP = "C09"
HERE = os.path.abspath(__file__)

from fractions import Fraction
import math
import re as _re

OBJ_STRINGS = ["flops", "max", "size", "write", "combo", "limit",
               # custom integer weights
               "combo-2", "limit-3", "combo-256", "limit-1", "combo-64.0",
               # custom fractional weights (also < 1): the requested objective is evaluated exactly
               "combo-0.5", "limit-2.5", "limit-3.5", "combo-1.5", "combo-0.25", "limit-7.75", "limit-0.5",
               "combo-2.75", "limit-1.5"]


def mk_obj(string):
    """(minimize string, Coq objective, oracle key, den): a custom weight k is kept exactly as
    digits / 10^fractional digits = num/den; the Coq model works with scores scaled by den"""
    if string in ("flops", "max", "size", "write"):
        return (string, "O" + string.capitalize(), (string, None), 1)
    m = _re.fullmatch(r"(combo|limit)-*((?:\d+\.?\d*)?)", string)
    kind, fac = m.groups()
    if not fac:
        return (string, "(O%s 64%%Z)" % kind.capitalize(), (kind, Fraction(64)), 1)
    ip, _, fp = fac.partition(".")
    numr, den = int(ip + fp), 10 ** len(fp)
    return (string, "(O%sQ %d%%Z %d%%Z)" % (kind.capitalize(), numr, den), (kind, Fraction(numr, den)), den)


_OBJ4 = [mk_obj(x) for x in OBJ_STRINGS]
OBJECTIVES = [(a, b, c) for a, b, c, d in _OBJ4]
DEN = {a: d for a, b, c, d in _OBJ4}
FRACTIONAL = [a for a, b, c, d in _OBJ4 if c[1] is not None and c[1].denominator != 1]
LCD = 1
for _a, _b, _c, _d in _OBJ4:
    if _c[1] is not None:
        LCD = LCD * _c[1].denominator // math.gcd(LCD, _c[1].denominator)
CAPS = [1, 2, 3, 5, 17, 100, 4096, 10 ** 6, 10 ** 30]
FUEL = 400


# ---------------------------------------------------------------------------
# independent specification, written from the property text (labels, sets, no cotengra)
def prod(xs):
    p = 1
    for x in xs:
        p *= x
    return p


def surviving(inputs, output, S):
    """indices carried by the intermediate made of exactly the tensors S: on a tensor of S
    and also on a tensor outside S or in the output"""
    inside = set()
    for i in S:
        inside.update(inputs[i])
    outside = set(output)
    for j in range(len(inputs)):
        if j not in S:
            outside.update(inputs[j])
    return frozenset(inside & outside)


class SpecNet:
    def __init__(self, inputs, output, size_dict):
        self.inputs, self.output, self.sd = inputs, output, size_dict
        self._surv = {}

    def surv(self, S):
        r = self._surv.get(S)
        if r is None:
            r = self._surv[S] = surviving(self.inputs, self.output, S)
        return r

    def step(self, L, R):
        """(flops, size, is_outer) of contracting the intermediates on L and R"""
        a, b = self.surv(L), self.surv(R)
        flops = prod(self.sd[ix] for ix in a | b)
        size = prod(self.sd[ix] for ix in self.surv(L | R))
        return flops, size, not (a & b)


def _unscale(keys, vals):
    """the enumerators work with integers: weighted objectives are scaled by LCD there"""
    return {k: (Fraction(v, LCD) if k[1] is not None else v) for k, v in zip(keys, vals)}


def objective_values(steps, factors):
    """steps: list of (flops, size); returns dict objective-key -> value"""
    v = {
        ("flops", None): sum(f for f, s in steps),
        ("max", None): max([f for f, s in steps], default=0),
        ("size", None): max([s for f, s in steps], default=0),
        ("write", None): sum(s for f, s in steps),
    }
    for k in factors:
        v[("combo", k)] = sum(f + k * s for f, s in steps)
        v[("limit", k)] = sum(max(f, k * s) for f, s in steps)
    return v


FACTORS = sorted({k for _, _, (w, k) in OBJECTIVES if k is not None}
                 | {Fraction(math.floor(k)) for _, _, (w, k) in OBJECTIVES if k is not None})


IFACTORS = [(k, int(k * LCD)) for k in FACTORS]


def path_steps(spec, n, ssa_path, allow_single=False):
    """replay an ssa path: returns (steps [(flops,size)], any_outer) or None if it is not a
    complete pairwise contraction.  allow_single: accept the single-term simplification steps
    `(i,)` that preprocessing emits on networks outside the precondition (not costed)."""
    sets = {i: frozenset([i]) for i in range(n)}
    live = set(range(n))
    nxt = n
    steps = []
    outer = False
    for con in ssa_path:
        if allow_single and len(con) == 1 and con[0] in live:
            live.discard(con[0])
            sets[nxt] = sets[con[0]]
            live.add(nxt)
            nxt += 1
            continue
        if len(con) != 2:
            return None
        i, j = con
        if i == j or i not in live or j not in live:
            return None
        f, s, o = spec.step(sets[i], sets[j])
        steps.append((f, s))
        outer |= o
        live -= {i, j}
        sets[nxt] = sets[i] | sets[j]
        live.add(nxt)
        nxt += 1
    if len(live) != 1:
        return None
    return steps, outer


def enumerate_minima(spec, n):
    """all (2n-3)!! binary trees over n leaves, each scored compositionally; returns
    (count, minima over all trees, minima over outer-product-free trees)"""
    keys = list(objective_values([], FACTORS))
    sums = [k for k in keys if k[0] in ("flops", "write", "combo", "limit")]

    def stepvals(L, R):
        f, s, o = spec.step(L, R)
        d = {("flops", None): f, ("max", None): f, ("size", None): s, ("write", None): s}
        for k, ki in IFACTORS:            # integers: scaled by LCD, unscaled at the end
            d[("combo", k)] = LCD * f + ki * s
            d[("limit", k)] = max(LCD * f, ki * s)
        return d, o

    def trees(S):
        """yield (values dict as tuple in `keys` order, outer_free) for every tree on S"""
        S = sorted(S)
        if len(S) == 1:
            yield tuple(0 for _ in keys), True
            return
        first, rest = S[0], S[1:]
        # every split {A, B} with first in A, B non-empty
        for msk in range(0, 2 ** len(rest) - 1):
            A = frozenset([first] + [rest[b] for b in range(len(rest)) if msk >> b & 1])
            B = frozenset(S) - A
            sv, o = stepvals(A, B)
            svt = tuple(sv[k] for k in keys)
            tb = list(trees(B))
            for va, fa in trees(A):
                for vb, fb in tb:
                    val = tuple((va[q] + vb[q] + svt[q]) if keys[q] in sums else max(va[q], vb[q], svt[q])
                                for q in range(len(keys)))
                    yield val, (fa and fb and not o)

    count = 0
    best_all = None
    best_free = None
    for val, free in trees(frozenset(range(n))):
        count += 1
        best_all = val if best_all is None else tuple(map(min, best_all, val))
        if free:
            best_free = val if best_free is None else tuple(map(min, best_free, val))
    return (count, _unscale(keys, best_all), None if best_free is None else _unscale(keys, best_free))


def _enum_job(net):
    inputs, output, sd = net
    return enumerate_minima(SpecNet(inputs, output, sd), len(inputs))


def precondition(inputs, output, size_dict):
    """connected, nothing to pre-simplify (the text of the property)"""
    n = len(inputs)
    if n < 2:
        return False
    if any(len(t) == 0 for t in inputs):
        return False                                     # scalars
    if any(len(set(t)) != len(t) for t in inputs):
        return False                                     # repeated index within a tensor
    where = {}
    for i, t in enumerate(inputs):
        for ix in t:
            where.setdefault(ix, set()).add(i)
    if any(ix not in where for ix in output) or len(set(output)) != len(output):
        return False
    for ix, ws in where.items():
        if len(ws) == 1 and ix not in output:
            return False                                 # confined to one tensor, not in output
        if len(ws) == n:
            return False                                 # shared by all tensors
    if len({frozenset(t) for t in inputs}) != n:
        return False                                     # two tensors with the same index set
    comp = list(range(n))

    def find(a):
        while comp[a] != a:
            a = comp[a]
        return a
    for ix, ws in where.items():
        ws = sorted(ws)
        for w in ws[1:]:
            comp[find(w)] = find(ws[0])
    return len({find(i) for i in range(n)}) == 1


# ---------------------------------------------------------------------------
# generators
SYMS = "abcdefghijklmnopqrstuvwxyzABCDEFGHIJKLMNOPQRSTUVWXYZ"


def gen_precond_net(rng, n):
    """random network satisfying the precondition, with deliberately mixed features:
    hyper-indices, output indices (dangling and shared), size-1 dims, unequal dims"""
    for _ in range(200):
        inputs = [[] for _ in range(n)]
        syms = iter(SYMS)
        style = rng.choice(["tree", "ring", "dense", "random"])
        edges = []
        for i in range(1, n):
            edges.append((rng.randrange(i) if style != "ring" else i - 1, i))
        if style == "ring" and n > 2:
            edges.append((n - 1, 0))
        extra = {"tree": 0, "ring": rng.randint(0, 1), "dense": rng.randint(n // 2, n),
                 "random": rng.randint(0, n // 2)}[style]
        for _ in range(extra):
            a, b = rng.sample(range(n), 2)
            edges.append((a, b))
        for a, b in edges:
            s = next(syms)
            inputs[a].append(s)
            inputs[b].append(s)
        # hyper indices on 3..n-1 tensors
        if n >= 4 and rng.random() < 0.4:
            for _ in range(rng.randint(1, 2)):
                s = next(syms)
                for w in rng.sample(range(n), rng.randint(3, n - 1)):
                    inputs[w].append(s)
        output = []
        # dangling output indices
        for i in range(n):
            if rng.random() < 0.25:
                s = next(syms)
                inputs[i].append(s)
                output.append(s)
        # shared output indices (batch-like, but not on all tensors)
        used = sorted({s for t in inputs for s in t})
        for s in used:
            if s not in output and rng.random() < 0.12:
                output.append(s)
        for t in inputs:
            rng.shuffle(t)
        rng.shuffle(output)
        dims = rng.choice([[2, 3], [1, 2, 3, 4], [2, 2, 2, 5, 7], [2, 3, 4, 16], [2], [1, 2, 64]])
        size_dict = {s: rng.choice(dims) for s in used}
        inputs = [tuple(t) for t in inputs]
        output = tuple(output)
        if precondition(inputs, output, size_dict):
            return inputs, output, size_dict
    raise RuntimeError("generator failed to produce a precondition network")


def tree_vectors(spec, n):
    """(flops, max, size, write) of every binary tree over n leaves (for the directed generator)"""
    def trees(S):
        S = sorted(S)
        if len(S) == 1:
            yield (0, 0, 0, 0)
            return
        first, rest = S[0], S[1:]
        for msk in range(0, 2 ** len(rest) - 1):
            A = frozenset([first] + [rest[b] for b in range(len(rest)) if msk >> b & 1])
            B = frozenset(S) - A
            f, s, _ = spec.step(A, B)
            tb = list(trees(B))
            for a in trees(A):
                for b in tb:
                    yield (a[0] + b[0] + f, max(a[1], b[1], f), max(a[2], b[2], s), a[3] + b[3] + s)
    return list(trees(frozenset(range(n))))


def directed_nets(rng, want, tries=400):
    """precondition networks on which the objectives DISAGREE: no flops-optimal tree is max-optimal
    (kind 'fm'), or no write-optimal tree is size-optimal (kind 'ws').  Such networks are rare
    (~2%) among random ones, and only they expose a cost function that computes another objective."""
    found = {"fm": [], "ws": []}
    for _ in range(tries):
        if all(len(v) >= want for v in found.values()):
            break
        n = rng.choice([5, 5, 6])
        inputs, output, sd = gen_precond_net(rng, n)
        sd = {k: rng.choice(rng.choice([[2, 3], [2, 3, 4, 16], [2, 3, 5, 7, 11, 13], [2, 2, 2, 5, 7]])) for k in sd}
        vs = tree_vectors(SpecNet(inputs, output, sd), n)
        minf = min(v[0] for v in vs)
        minw = min(v[3] for v in vs)
        if min(v[1] for v in vs if v[0] == minf) > min(v[1] for v in vs) and len(found["fm"]) < want:
            found["fm"].append((inputs, output, sd))
        elif min(v[2] for v in vs if v[3] == minw) > min(v[2] for v in vs) and len(found["ws"]) < want:
            found["ws"].append((inputs, output, sd))
    return found


def cluster_net(rng, n):
    """two multi-tensor clusters of comparable cost joined by one bond, dims 2..7"""
    na = rng.randint(2, n - 2)
    inputs = [[] for _ in range(n)]
    syms = iter(SYMS)

    def mk(idx):
        for k in range(1, len(idx)):
            s = next(syms)
            inputs[idx[rng.randrange(k)]].append(s)
            inputs[idx[k]].append(s)
        for _ in range(rng.randint(0, len(idx) - 1)):
            a, b = rng.sample(idx, 2)
            s = next(syms)
            inputs[a].append(s)
            inputs[b].append(s)
    A, B = list(range(na)), list(range(na, n))
    mk(A)
    mk(B)
    s = next(syms)
    inputs[rng.choice(A)].append(s)
    inputs[rng.choice(B)].append(s)
    output = []
    for i in range(n):
        if rng.random() < 0.3:
            s = next(syms)
            inputs[i].append(s)
            output.append(s)
    sd = {x: rng.randint(2, 7) for t in inputs for x in t}
    return [tuple(t) for t in inputs], tuple(output), sd


def prune_vectors(spec, n):
    """per tree: (size score, J_size, max score, J_max) with J = the largest iscore + jscore over its joins.
    Used only to DIRECT generation towards networks / initial caps on which a pruning rule on
    iscore + jscore (sound for the additive objectives, unsound for the max-type ones) hides the optimum."""
    def trees(S):
        S = sorted(S)
        if len(S) == 1:
            yield (0, 0, 0, 0)
            return
        first, rest = S[0], S[1:]
        for msk in range(0, 2 ** len(rest) - 1):
            A = frozenset([first] + [rest[b] for b in range(len(rest)) if msk >> b & 1])
            B = frozenset(S) - A
            f, s, _ = spec.step(A, B)
            tb = list(trees(B))
            for a in trees(A):
                for b in tb:
                    yield (max(a[0], b[0], s), max(a[1], b[1], a[0] + b[0]),
                           max(a[2], b[2], f), max(a[3], b[3], a[2] + b[2]))
    return list(trees(frozenset(range(n))))


def sum_sensitive_caps(vs, i, cmax=48):
    """initial caps c0 such that, at the first cap c0*2^k admitting some tree whose score AND whose
    largest child-score sum are within the cap, the best such tree is worse than the optimum"""
    opt = min(v[i] for v in vs)
    res = []
    for c0 in range(1, cmax + 1):
        C = c0
        while True:
            reach = [v[i] for v in vs if v[i] <= C and v[i + 1] <= C]
            if reach:
                break
            C *= 2
        if min(reach) > opt:
            res.append(c0)
    return res


def directed_prune_nets(rng, want, sizes=(5, 6, 6), tries=300):
    """[(net, objective string, [caps])]: cluster networks whose optimal size / max tree joins two non-leaf
    subtrees of comparable score while a worse tree lies in the same cost_cap bracket"""
    out = []
    for _ in range(tries):
        if len(out) >= want:
            break
        n = rng.choice(sizes)
        inputs, output, sd = cluster_net(rng, n)
        if not precondition(inputs, output, sd):
            continue
        vs = prune_vectors(SpecNet(inputs, output, sd), n)
        for which, i in (("size", 0), ("max", 2)):
            caps = sum_sensitive_caps(vs, i)
            if caps:
                out.append(((inputs, output, sd), which, caps))
    return out


def arms_net(rng):
    """k arms of >= 2 tensors, each collapsing to a small vector, attached to a hub that carries a large
    open index: the optimum (search_outer=True) first takes the OUTER PRODUCT of the collapsed arms --
    two multi-tensor intermediates without a common index -- and only then meets the hub."""
    k = rng.choice([2, 2, 2, 3])
    syms = iter(SYMS)
    inputs, sd = [], {}
    hub = []
    for _ in range(k):
        m = rng.choice([2, 2, 3]) if k == 2 else 2
        arm = [[] for _ in range(m)]
        # a chain with doubled bonds (so that index sets differ and the arm is worth contracting first)
        for j in range(1, m):
            for _ in range(rng.randint(1, 2)):
                b = next(syms)
                sd[b] = rng.choice([2, 3, 4, 5])
                arm[j - 1].append(b)
                arm[j].append(b)
        if m == 2 and len(arm[0]) == 1:
            b = next(syms)
            sd[b] = rng.choice([2, 3, 4])
            arm[0].append(b)
            arm[1].append(b)
        x = next(syms)
        sd[x] = rng.choice([2, 2, 3])
        arm[0].append(x)
        hub.append(x)
        inputs += arm
    z = next(syms)
    sd[z] = rng.choice([6, 8, 11, 16, 32])
    hub.append(z)
    output = [z]
    if rng.random() < 0.3:
        z2 = next(syms)
        sd[z2] = rng.choice([2, 3])
        hub.append(z2)
        output.append(z2)
    inputs.append(hub)
    order = list(range(len(inputs)))
    rng.shuffle(order)
    inputs = [tuple(rng.sample(inputs[i], len(inputs[i]))) for i in order]
    return inputs, tuple(output), sd


def mm_outer_minima(spec, n):
    """per objective key: (minimum over all trees, minimum over the trees WITHOUT an outer product between
    two multi-tensor intermediates).  A strict gap means every optimal tree contains such an outer product."""
    keys = list(objective_values([], FACTORS))
    sums = [k for k in keys if k[0] in ("flops", "write", "combo", "limit")]

    def trees(S):
        S = sorted(S)
        if len(S) == 1:
            yield tuple(0 for _ in keys), True
            return
        first, rest = S[0], S[1:]
        for msk in range(0, 2 ** len(rest) - 1):
            A = frozenset([first] + [rest[b] for b in range(len(rest)) if msk >> b & 1])
            B = frozenset(S) - A
            f, s, o = spec.step(A, B)
            d = {("flops", None): f, ("max", None): f, ("size", None): s, ("write", None): s}
            for kf, ki in IFACTORS:
                d[("combo", kf)] = LCD * f + ki * s
                d[("limit", kf)] = max(LCD * f, ki * s)
            svt = tuple(d[q] for q in keys)
            mm = o and len(A) >= 2 and len(B) >= 2
            tb = list(trees(B))
            for va, na in trees(A):
                for vb, nb_ in tb:
                    yield (tuple((va[q] + vb[q] + svt[q]) if keys[q] in sums else max(va[q], vb[q], svt[q])
                                 for q in range(len(keys))), na and nb_ and not mm)

    best_all = best_nomm = None
    for val, nomm in trees(frozenset(range(n))):
        best_all = val if best_all is None else tuple(map(min, best_all, val))
        if nomm:
            best_nomm = val if best_nomm is None else tuple(map(min, best_nomm, val))
    return _unscale(keys, best_all), _unscale(keys, best_nomm)


def directed_arms_nets(rng, want, tries=60):
    """[(net, [objective keys with a strict gap])]: arm/hub networks on which, for some objective, EVERY optimal
    tree takes an outer product of two multi-tensor intermediates (needs search_outer=True to be found)"""
    out = []
    for _ in range(tries):
        if len(out) >= want:
            break
        inputs, output, sd = arms_net(rng)
        if not precondition(inputs, output, sd) or len(inputs) > 7:
            continue
        ba, bn = mm_outer_minima(SpecNet(inputs, output, sd), len(inputs))
        gap = [k for k in ba if ba[k] < bn[k]]
        if gap:
            out.append(((inputs, output, sd), gap))
    return out


def directed_frac_nets(rng, want, tries=400):
    """[(net, [fractional objective strings with a strict gap])]: precondition networks on which, for a
    fractional weight k, every tree that is optimal for floor(k) is NOT optimal for k (so a finder that
    truncates the weight returns a non-optimal tree)"""
    keys = list(objective_values([], FACTORS))
    sums = [k for k in keys if k[0] in ("flops", "write", "combo", "limit")]
    fr = [(a, c) for a, b, c in OBJECTIVES if a in FRACTIONAL]
    out = []
    for _ in range(tries):
        if len(out) >= want:
            break
        n = rng.choice([4, 5, 5, 6])
        inputs, output, sd = gen_precond_net(rng, n)
        sd = {k: rng.choice(rng.choice([[2, 3], [2, 3, 4, 5], [2, 3, 5, 7, 11], [1, 2, 3, 4], [2, 4, 8]])) for k in sd}
        spec = SpecNet(inputs, output, sd)

        def trees(S):
            S = sorted(S)
            if len(S) == 1:
                yield tuple(0 for _ in keys)
                return
            first, rest = S[0], S[1:]
            for msk in range(0, 2 ** len(rest) - 1):
                A = frozenset([first] + [rest[b] for b in range(len(rest)) if msk >> b & 1])
                B = frozenset(S) - A
                f, sz, _ = spec.step(A, B)
                d = {("flops", None): f, ("max", None): f, ("size", None): sz, ("write", None): sz}
                for kf, ki in IFACTORS:
                    d[("combo", kf)] = LCD * f + ki * sz
                    d[("limit", kf)] = max(LCD * f, ki * sz)
                svt = tuple(d[q] for q in keys)
                tb = list(trees(B))
                for va in trees(A):
                    for vb in tb:
                        yield tuple((va[q] + vb[q] + svt[q]) if keys[q] in sums else max(va[q], vb[q], svt[q])
                                    for q in range(len(keys)))
        vs = list(trees(frozenset(range(n))))
        gap = []
        for mini, (kind, k) in fr:
            qk = keys.index((kind, k))
            qf = keys.index((kind, Fraction(math.floor(k))))
            mf = min(v[qf] for v in vs)
            if min(v[qk] for v in vs if v[qf] == mf) > min(v[qk] for v in vs):
                gap.append(mini)
        if gap:
            out.append(((inputs, output, sd), gap))
    return out


# ---------------------------------------------------------------------------
# worker: everything that calls cotengra runs here (subprocess, per-call alarm)
def worker_main():
    import signal
    jobs = json.load(sys.stdin)
    from cotengra.pathfinders import path_basic as pb

    class Alarm(Exception):
        pass

    def on_alarm(sig, frm):
        raise Alarm()

    signal.signal(signal.SIGALRM, on_alarm)
    TRACE = []
    orig_parse = pb.parse_minimize_for_optimal

    def tracing_parse(minimize):
        f = orig_parse(minimize)

        def g(temp_legs, appearances, sizes, iscore, jscore):
            before = [list(x) for x in temp_legs]
            r = f(temp_legs, appearances, sizes, iscore, jscore)
            if TRACE is not None and len(TRACE) < 100000:
                TRACE.append([before, iscore, jscore, [list(x) for x in temp_legs], r])
            return r
        return g

    out = []
    ntimeouts = 0
    for job in jobs:
        kind = job["kind"]
        res = {"id": job["id"]}
        if ntimeouts >= 3:
            # circuit breaker: the finder does not terminate any more; do not burn the budget
            res["error"] = "skipped after 3 timeouts in this worker"
            res["skipped"] = True
            out.append(res)
            continue
        signal.setitimer(signal.ITIMER_REAL, job.get("timeout", 20))
        try:
            inputs = [tuple(t) for t in job["inputs"]]
            output = tuple(job["output"])
            sd = job["size_dict"]
            if kind == "dp":
                cp = pb.ContractionProcessor(inputs, output, sd)
                if job["simplify"]:
                    cp.simplify()
                res["app"] = list(cp.appearances)
                res["sizes"] = list(cp.sizes)
                groups = cp.subgraphs()
                res["groups"] = []
                pb.parse_minimize_for_optimal = tracing_parse
                try:
                    for where in groups:
                        del TRACE[:]
                        g = {"where": list(where), "wlegs": [[list(x) for x in cp.nodes[w]] for w in where],
                             "ssa0": cp.ssa, "npath0": len(cp.ssa_path)}
                        cp.optimize_optimal_connected(where, minimize=job["minimize"], cost_cap=job["cap"],
                                                      search_outer=job["search_outer"])
                        g["pairs"] = [list(p) for p in cp.ssa_path[g["npath0"]:]]
                        g["ncalls"] = len(TRACE)
                        if job["trace"] and len(TRACE) <= job["trace"]:
                            g["trace"] = [list(e) for e in TRACE]
                        res["groups"].append(g)
                finally:
                    pb.parse_minimize_for_optimal = orig_parse
            elif kind == "e2e":
                if job["entry"] == "function":
                    path = pb.optimize_optimal(inputs, output, sd, minimize=job["minimize"], cost_cap=job["cap"],
                                               search_outer=job["search_outer"], use_ssa=True)
                elif job["entry"] == "class":
                    opt = pb.OptimalOptimizer(minimize=job["minimize"], cost_cap=job["cap"],
                                              search_outer=job["search_outer"])
                    path = opt.ssa_path(inputs, output, sd)
                else:  # linear path through __call__, converted by the harness' own converter
                    opt = pb.OptimalOptimizer(minimize=job["minimize"], cost_cap=job["cap"],
                                              search_outer=job["search_outer"])
                    lin = opt(inputs, output, sd)
                    ids = list(range(len(inputs)))
                    nxt = len(inputs)
                    path = []
                    for con in lin:
                        con = sorted(con)
                        path.append(tuple(ids[c] for c in con))
                        for c in reversed(con):
                            ids.pop(c)
                        ids.append(nxt)
                        nxt += 1
                res["path"] = [list(p) for p in path]
            elif kind == "init":
                cp = pb.ContractionProcessor(inputs, output, sd)
                res["nodes"] = [[i, [list(x) for x in lg]] for i, lg in cp.nodes.items()]
                res["edges"] = [[ix, list(d)] for ix, d in cp.edges.items()]
                res["app"] = list(cp.appearances)
                res["sizes"] = list(cp.sizes)
                res["ssa"] = cp.ssa
                res["groups"] = [list(g) for g in cp.subgraphs()]
                before = (dict(cp.nodes), {k: list(v) for k, v in cp.edges.items()}, cp.ssa)
                cp.simplify()
                after = (dict(cp.nodes), {k: list(v) for k, v in cp.edges.items()}, cp.ssa)
                res["simplify_noop"] = bool(before == after and not cp.ssa_path)
                res["groups_after"] = [list(g) for g in cp.subgraphs()]
            elif kind == "parsefn":
                import functools
                from fractions import Fraction as _F
                res["parsed"] = []
                for st in job["strings"]:
                    try:
                        f = pb.parse_minimize_for_optimal.__wrapped__(st)
                        if isinstance(f, functools.partial):
                            fac = _F(f.keywords["factor"])
                            res["parsed"].append([st, f.func.__name__, [fac.numerator, fac.denominator]])
                        else:
                            res["parsed"].append([st, f.__name__, None])
                    except ValueError:
                        res["parsed"].append([st, None, None])
            elif kind == "parse":
                from cotengra.scoring import get_score_fn
                s = get_score_fn(job["minimize"]).get_dynamic_programming_minimize()
                res["dp_minimize"] = s
                pb.parse_minimize_for_optimal(s)
                res["ok"] = True
        except Alarm:
            res["error"] = "timeout (%ss)" % job.get("timeout", 20)
            ntimeouts += 1
        except Exception as e:  # noqa
            res["error"] = "%s: %s" % (type(e).__name__, e)
        finally:
            signal.setitimer(signal.ITIMER_REAL, 0)
        out.append(res)
    json.dump(out, sys.stdout)


def run_worker(jobs, nproc=8, timeout=1500):
    """split the jobs over nproc subprocesses; returns {id: result}"""
    chunks = [jobs[i::nproc] for i in range(nproc)]
    procs = []
    for ch in chunks:
        if not ch:
            continue
        p = subprocess.Popen([sys.executable, HERE, "--worker"], stdin=subprocess.PIPE, stdout=subprocess.PIPE,
                             stderr=subprocess.PIPE, text=True)
        procs.append((p, ch))
    import threading
    results = {}

    def feed(p, ch):
        try:
            o, e = p.communicate(json.dumps(ch), timeout=timeout)
            for r in json.loads(o):
                results[r["id"]] = r
        except Exception as ex:  # noqa
            p.kill()
            for j in ch:
                results.setdefault(j["id"], {"id": j["id"], "error": "worker failed: %r" % (ex,)})
    ths = [threading.Thread(target=feed, args=pc) for pc in procs]
    for t in ths:
        t.start()
    for t in ths:
        t.join()
    return results


# ---------------------------------------------------------------------------
def zsc(mini, x):
    """a score of the run with objective string `mini` (int, or float when a custom factor is given),
    exactly, scaled by the model's denominator"""
    v = Fraction(x) * DEN[mini]
    if v.denominator != 1:
        raise ValueError("score %r of %s is not a multiple of 1/%d" % (x, mini, DEN[mini]))
    return int(v)


def run(ctx):
    from vlib import gen
    from vlib.core import Raw, Z, coq, standard_proof_steps

    if not standard_proof_steps(ctx):
        return
    rng = ctx.rng
    t0 = time.time()

    def legs_lit(lg):
        return coq([(int(a), int(b)) for a, b in lg])

    # ------------------------------------------------------------------ jobs
    jobs = []
    # K1: DP level on arbitrary processor states
    # VERIF_C09_SCALE (default 1) scales the numbers of generated cases; used only to smoke-test a tier quickly
    scale = float(os.environ.get("VERIF_C09_SCALE", "1") or 1)
    n_dp = max(6, int(ctx.n(160, 1500) * scale))
    for c in range(n_dp):
        if c % 3 == 0:
            inputs, output, sd = gen_precond_net(rng, rng.randint(3, 6))
            kindnet = "precond"
        else:
            inputs, output, sd = gen.rand_net(rng, nmin=2, nmax=6)
            kindnet = "perverse"
        mini, cobj, okey = OBJECTIVES[rng.randrange(len(OBJECTIVES))]
        jobs.append({"id": "dp%d" % c, "kind": "dp", "inputs": [list(t) for t in inputs], "output": list(output),
                     "size_dict": sd, "simplify": rng.random() < 0.5, "minimize": mini,
                     "cap": rng.choice(CAPS), "search_outer": rng.random() < 0.5,
                     "trace": 1500 if c % 2 == 0 else 0, "net": kindnet, "cobj": cobj, "timeout": 15})
    # K2 + oracle: end to end on precondition networks
    n_net = max(12, int(ctx.n(18, 150) * scale))
    nets = []
    directed = directed_nets(rng, ctx.n(3, 12))
    dlist = [(k, net) for k, v in sorted(directed.items()) for net in v]
    for k, _ in dlist:
        ctx.count("directed_objectives_disagree_%s" % k)
    for c in range(n_net + len(dlist)):
        if c < len(dlist):
            inputs, output, sd = dlist[c][1]
            n = len(inputs)
        else:
            if ctx.quick:
                n = [3, 4, 4, 5, 5, 5, 6, 6, 6, 6, 7, 8][c % 12]
            else:
                n = [3, 4, 4, 5, 5, 5, 6, 6, 6, 6, 7, 7, 7, 8, 9][c % 15]
            inputs, output, sd = gen_precond_net(rng, n)
        nets.append((inputs, output, sd))
        combos = [(o, so) for o in range(len(OBJECTIVES)) for so in (False, True)]
        # the six named objectives x both search_outer always; custom factors sampled
        chosen = [cb for cb in combos if cb[0] < 6] + rng.sample([cb for cb in combos if cb[0] >= 6], 5)
        for (oi, so) in chosen:
            caps = [2, rng.choice([1, 3, 5, 17]), rng.choice([100, 4096, 10 ** 6, 10 ** 30])]
            if n >= 8:
                caps = caps[:2]
            for cap in caps:
                mini, cobj, okey = OBJECTIVES[oi]
                jobs.append({"id": "e%d_%d_%d_%d" % (c, oi, so, cap), "kind": "e2e", "net": c,
                             "inputs": [list(t) for t in inputs], "output": list(output), "size_dict": sd,
                             "minimize": mini, "cap": cap, "search_outer": so, "oi": oi,
                             "entry": rng.choice(["function", "function", "class", "call"]),
                             "timeout": 30 if n <= 8 else 90})
    # directed: cluster networks + small initial caps on which the max-type objectives are sensitive to any
    # pruning by iscore + jscore (see directed_prune_nets); size and max, both search modes, cap sweep
    for (net, which, caps) in directed_prune_nets(rng, ctx.n(5, 16), sizes=(5, 6, 6) if ctx.quick else (5, 6, 6, 7)):
        inputs, output, sd = net
        c = len(nets)
        nets.append(net)
        ctx.count("directed_cluster_%s" % which)
        sweep = sorted(set(caps[:3] + [caps[len(caps) // 2], caps[-1]] + [1, 2, 3, 5, 7, 11]))
        for mini in ("size", "max"):
            oi = [o[0] for o in OBJECTIVES].index(mini)
            for so in (False, True):
                for cap in sweep:
                    jobs.append({"id": "e%d_%d_%d_%d" % (c, oi, so, cap), "kind": "e2e", "net": c,
                                 "inputs": [list(t) for t in inputs], "output": list(output), "size_dict": sd,
                                 "minimize": mini, "cap": cap, "search_outer": so, "oi": oi,
                                 "entry": "function", "timeout": 30})
    # directed: arm/hub networks whose optimum (search_outer=True) contains an outer product between two
    # multi-tensor intermediates; every objective, both modes, three caps
    arms = directed_arms_nets(rng, ctx.n(4, 12))
    n_mm_strict = 0
    for (net, gap) in arms:
        inputs, output, sd = net
        c = len(nets)
        nets.append(net)
        ctx.count("directed_arms_nets")
        for oi, (mini, cobj, okey) in enumerate(OBJECTIVES):
            if okey in gap:
                n_mm_strict += 1
                ctx.count("optimum_needs_outer_of_two_intermediates[%s]" % mini)
            for so in (True, False):
                for cap in ((1, 2, 10 ** 6) if okey in gap else (2,)):
                    jobs.append({"id": "e%d_%d_%d_%d" % (c, oi, so, cap), "kind": "e2e", "net": c,
                                 "inputs": [list(t) for t in inputs], "output": list(output), "size_dict": sd,
                                 "minimize": mini, "cap": cap, "search_outer": so, "oi": oi,
                                 "entry": rng.choice(["function", "class", "call"]), "timeout": 30})
    if n_mm_strict == 0:
        # generator floor: without such a case a finder that never examines outer products of two
        # intermediates would pass unnoticed
        ctx.fail("generator floor: no generated case has an optimum that contains an outer product between two "
                 "multi-tensor intermediates (search_outer=True)", {"arms_networks": len(arms)}, found_input=False)
    # directed: networks on which, for a fractional weight k, NO tree optimal for floor(k) is optimal for k
    frac = directed_frac_nets(rng, ctx.n(4, 12))
    n_frac_strict = 0
    for (net, gap) in frac:
        inputs, output, sd = net
        c = len(nets)
        nets.append(net)
        ctx.count("directed_fractional_nets")
        for oi, (mini, cobj, okey) in enumerate(OBJECTIVES):
            if mini not in FRACTIONAL:
                continue
            strict = mini in gap
            if strict:
                n_frac_strict += 1
                ctx.count("floor_k_optimum_differs[%s]" % mini)
            for so in (False, True):
                for cap in ((1, 2, 10 ** 6) if strict else (2,)):
                    jobs.append({"id": "e%d_%d_%d_%d" % (c, oi, so, cap), "kind": "e2e", "net": c,
                                 "inputs": [list(t) for t in inputs], "output": list(output), "size_dict": sd,
                                 "minimize": mini, "cap": cap, "search_outer": so, "oi": oi,
                                 "entry": rng.choice(["function", "class", "call"]), "timeout": 30})
    if n_frac_strict == 0:
        ctx.fail("generator floor: no generated case where the optimum for floor(k) differs from the optimum for a "
                 "fractional weight k", {"fractional_networks": len(frac)}, found_input=False)
    # K4: the parser on every objective string used, on documented / adversarial forms and on random strings
    parse_strings = list(OBJ_STRINGS) + [
        "combo-", "combo--5", "combo5", "limit--2.50", "combo7.", "limit-007.50", "combo-0.0", "limit-0",
        "combo=64", "combo-.5", "combo-1.2.3", "combo-1e3", "combo- 2", "flops-3", "size-2", "write-", "max-2",
        "maxx", "", "combos", "lim", "limit-2.5x", "combo-2.5-", "COMBO", "flops ", "write-0.5"]
    for _ in range(ctx.n(60, 400)):
        parse_strings.append(rng.choice(["flops", "size", "write", "max", "combo", "limit", "combo", "limit", "comb"])
                             + "-" * rng.choice([0, 1, 1, 1, 2])
                             + rng.choice(["", "%d" % rng.randint(0, 300), "%d.%d" % (rng.randint(0, 20), rng.randint(0, 999)),
                                           "%d." % rng.randint(0, 9), "0.%02d" % rng.randint(0, 99), ".%d" % rng.randint(1, 9),
                                           "%d.%d.%d" % (1, 2, 3), "%de%d" % (2, 3)]))
    parse_strings = [x for k, x in enumerate(parse_strings) if x not in parse_strings[:k]]
    jobs.append({"id": "parsefn", "kind": "parsefn", "inputs": [], "output": [], "size_dict": {},
                 "strings": parse_strings, "timeout": 60})
    # informational only: networks OUTSIDE the precondition (the property does not apply; never judged)
    info_nets = []
    for c in range(max(5, int(ctx.n(40, 300) * scale))):
        inputs, output, sd = gen.rand_net(rng, nmin=3, nmax=6, p_scalar=0.05)
        if precondition(inputs, output, sd) or any(ix not in {a for t in inputs for a in t} for ix in output):
            continue
        info_nets.append((inputs, output, sd))
        oi = rng.randrange(6)
        jobs.append({"id": "info%d" % c, "kind": "e2e", "net": len(info_nets) - 1, "info": True,
                     "inputs": [list(t) for t in inputs], "output": list(output), "size_dict": sd,
                     "minimize": OBJECTIVES[oi][0], "cap": 2, "search_outer": True, "oi": oi,
                     "entry": "function", "timeout": 60})
    # K3: the processor state built by __init__, subgraphs() and simplify()
    init_nets = [(net, True) for net in nets]
    for c in range(max(5, int(ctx.n(60, 600) * scale))):
        net = gen.rand_net(rng, nmin=2, nmax=7)
        if any(ix not in {a for t in net[0] for a in t} for ix in net[1]):
            continue
        init_nets.append((net, False))
    for k, ((inputs, output, sd), _) in enumerate(init_nets):
        jobs.append({"id": "init%d" % k, "kind": "init", "inputs": [list(t) for t in inputs],
                     "output": list(output), "size_dict": sd, "timeout": 20})
    # regression corpus (runs every time): objective strings that must survive the round trip
    # scorer -> get_dynamic_programming_minimize() -> parse_minimize_for_optimal
    parse_ids = []
    cdir = os.path.join(os.path.dirname(os.path.dirname(os.path.dirname(HERE))), "corpus", PROP)
    strings = ["combo-256", "limit-3"]
    if os.path.isdir(cdir):
        for fn in sorted(os.listdir(cdir)):
            if fn.endswith(".json"):
                d = json.load(open(os.path.join(cdir, fn)))
                if d.get("kind") == "parse":
                    strings += [m for m in d.get("minimize", []) if m not in strings]
    for k, mstr in enumerate(strings):
        parse_ids.append("parse%d" % k)
        jobs.append({"id": "parse%d" % k, "kind": "parse", "inputs": [], "output": [], "size_dict": {},
                     "minimize": mstr})
    results = run_worker(jobs, nproc=14)
    ctx.log("implementation runs done: %d jobs in %.1fs" % (len(jobs), time.time() - t0))

    # ------------------------------------------------------------------ known finding 16
    for jid in parse_ids:
        r = results[jid]
        if r.get("error"):
            ctx.fail("parse_minimize_for_optimal rejects the string the scorer emits for subtree "
                     "reconfiguration: %r -> %s" % (r.get("dp_minimize"), r["error"]),
                     {"minimize": jid, "dp_minimize": r.get("dp_minimize"), "error": r["error"]},
                     key="dp_minimize_float_factor")
            ctx.count("known:dp_minimize_float_factor")

    # ------------------------------------------------------------------ oracle + K2
    enum_limit = ctx.n(6, 7)
    specs = {}
    todo = [c for c, (inputs, output, sd) in enumerate(nets) if len(inputs) <= enum_limit + 1]
    import multiprocessing
    with multiprocessing.Pool(14) as pool:
        enum_res = dict(zip(todo, pool.map(_enum_job, [nets[c] for c in todo], chunksize=1)))
    for c, (inputs, output, sd) in enumerate(nets):
        spec = SpecNet(inputs, output, sd)
        n = len(inputs)
        mins = None
        if c in enum_res:
            cnt, best_all, best_free = enum_res[c]
            dfact = prod(range(2 * n - 3, 0, -2))
            if cnt != dfact:
                raise RuntimeError("oracle enumerated %d trees, expected %d" % (cnt, dfact))
            mins = (best_all, best_free)
            ctx.count("oracle_enumerated_n%d" % n)
        specs[c] = (spec, mins)
    ctx.log("oracle enumeration done (%.1fs)" % (time.time() - t0))

    # ---- informational: outside the precondition, compare with the true minimum, do not judge
    for job in jobs:
        if job["kind"] != "e2e" or not job.get("info"):
            continue
        r = results[job["id"]]
        inputs, output, sd = info_nets[job["net"]]
        okey = OBJECTIVES[job["oi"]][2]
        feats = sorted(gen.net_features(inputs, output, sd) & {"repeat", "scalar", "on_all", "leaf_only", "disconnected"})
        if len({frozenset(t) for t in inputs}) != len(inputs):
            feats.append("same_index_set")
        tag = "+".join(feats) or "other"
        if r.get("error"):
            ctx.count("info_outside_precondition:error")
            continue
        spec = SpecNet(inputs, output, sd)
        ps = path_steps(spec, len(inputs), [tuple(p) for p in r["path"]], allow_single=True)
        if ps is None:
            ctx.count("info_outside_precondition:incomplete_path")
            continue
        got = objective_values(ps[0], FACTORS)[okey]
        _, best_all, _ = enumerate_minima(spec, len(inputs))
        if got == best_all[okey]:
            ctx.count("info_outside_precondition:optimal")
        else:
            ctx.count("info_outside_precondition:not_optimal")
            ctx.count("info_not_optimal[%s]" % tag)
            if len(ctx.notes) < 8:
                ctx.notes.append("outside the precondition (not judged): %s minimize=%s search_outer=True cost %s, "
                                 "minimum over all trees %s, net %r -> %r %r"
                                 % (tag, job["minimize"], got, best_all[okey], inputs, output, sd))

    cases, recs = [], []
    seen_net_model = set()
    for job in jobs:
        if job["kind"] != "e2e" or job.get("info"):
            continue
        r = results[job["id"]]
        c = job["net"]
        inputs, output, sd = nets[c]
        n = len(inputs)
        spec, mins = specs[c]
        mini, cobj, okey = OBJECTIVES[job["oi"]]
        so = job["search_outer"]
        rec = {"inputs": inputs, "output": output, "size_dict": sd, "minimize": mini, "cost_cap": job["cap"],
               "search_outer": so, "entry": job["entry"]}
        ctx.count("e2e_n%d" % n)
        ctx.count("e2e_%s" % mini)
        ctx.count("e2e_cap_%s" % ("tiny" if job["cap"] <= 5 else "mid" if job["cap"] <= 4096 else "huge"))
        if r.get("skipped"):
            ctx.count("skipped_after_timeouts")
            continue
        if r.get("error"):
            ctx.fail("optimal finder failed on a precondition network: %s" % r["error"], rec)
            continue
        path = [tuple(p) for p in r["path"]]
        rec["impl_ssa_path"] = path
        ps = path_steps(spec, n, path)
        if ps is None:
            ctx.fail("returned path is not a complete pairwise contraction", rec)
            continue
        steps, outer = ps
        got = objective_values(steps, FACTORS)[okey]
        rec["impl_cost"] = got
        nontriv = n >= 4
        if mins is not None:
            best_all, best_free = mins
            if best_free is None:
                raise RuntimeError("connected network without outer-product-free tree?")
            want = best_all[okey] if so else best_free[okey]
            rec["oracle_minimum"] = want
            rec["oracle_min_all"] = best_all[okey]
            rec["oracle_min_outer_free"] = best_free[okey]
            if best_all[okey] < best_free[okey]:
                ctx.count("outer_product_strictly_better")
            if got != want:
                ctx.fail("path of optimize_optimal is not optimal: cost %s, minimum over %s trees %s"
                         % (got, "all" if so else "outer-product-free", want), rec)
                continue
            if not so and outer:
                ctx.fail("search_outer=False but the returned path contains an outer product", rec)
                continue
            ctx.count("oracle_judged")
        ctx.case(("e2e", c, mini, so, job["cap"]), nontrivial=nontriv,
                 sample=rec if len(ctx.coverage["samples"]) < 5 and n >= 5 else None)
        # ---- K2: the model on the same call
        netl = gen.net_lit(inputs, output, sd)
        pl = coq([(int(a), int(b)) for a, b in path])
        gz = Z(zsc(mini, got))
        lhs = "optimize_optimal %s %s %s %d%%nat (%d)%%Z" % (netl, cobj, coq(bool(so)), FUEL, job["cap"] * DEN[mini])
        rhs = "(Some (%s, %s))" % (coq(gz), pl)
        cases.append((job["id"], lhs, rhs))
        recs.append(rec)
        if job["cap"] == 2:
            # the model of the public entry point (init ; simplify ; subgraphs ; DP ; replay)
            lhsf = "optimize_optimal_full nil %s %s %s %d%%nat (%d)%%Z" % (netl, cobj, coq(bool(so)), FUEL, job["cap"] * DEN[mini])
            rhsf = "(Some (%s, %s))" % (coq(gz), coq([[int(a), int(b)] for a, b in path]))
            cases.append((job["id"] + "_full", lhsf, rhsf))
            recs.append(dict(rec, what="optimize_optimal_full (model of the public entry point)"))
        # ---- Coq spec on the returned tree, and the enumerated optimum inside Coq
        key = (c, job["oi"], so)
        if key not in seen_net_model:
            seen_net_model.add(key)
            P = "(proc_init %s)" % netl
            tr = "(ssa_tree %d %s)" % (n, pl)
            # tscore / admissible of the returned tree by the Coq SPEC, and the executable
            # hypothesis wf_procb of the theorems C09_dp_optimal / C09_optimize_optimal_is_optimal
            lhs2 = ("let p := %s in (tscore (p_nodes p) (p_app p) (p_sizes p) %s %s, "
                    "(admissible (p_nodes p) (p_app p) %s %s, (wf_procb (p_nodes p) (p_app p) (p_sizes p), "
                    "full_treeb %d %s)))" % (P, cobj, tr, coq(bool(so)), tr, n, tr))
            rhs2 = "(%s, (true, (true, true)))" % coq(gz)
            cases.append((job["id"] + "_spec", lhs2, rhs2))
            recs.append(dict(rec, what="Coq spec score / admissibility of the returned tree"))
            # brute_min inside Coq costs ~1.5 s for n=6 and ~17 s for n=7: all configurations up to
            # n=5 (quick) / n=6 (thorough), a few per network at the enumeration limit
            if n < enum_limit or (n == enum_limit and (job["oi"] + 2 * int(so) + c) % ctx.n(4, 10) == 0):
                lhs3 = "let p := %s in brute_min (p_nodes p) (p_app p) (p_sizes p) %s %s" % (P, cobj, coq(bool(so)))
                rhs3 = "(Some %s)" % coq(gz)
                cases.append((job["id"] + "_brute", lhs3, rhs3))
                recs.append(dict(rec, what="Coq enumerated minimum over all_trees"))
                ctx.count("coq_brute_min_n%d" % n)
    failing = ctx.coq_cases("c09_e2e", ["OptimalProc"], cases, chunk=16, timeout=1500)
    for idx, label, val in failing[:3]:
        rec = dict(recs[idx]) if idx < len(recs) else {}
        rec["model_value"] = val
        rec["case"] = label
        rec["correspondence"] = ("Model/Optimal.v optimize_optimal (proc_init + DP + replay) / tscore / brute_min "
                                 "vs the real optimize_optimal's path and its independently evaluated cost")
        ctx.fail("model and implementation disagree (optimum, path, spec score or enumerated minimum)",
                 rec, found_input=False)
    ctx.log("K2 done: %d cases, %d failing (%.1fs)" % (len(cases), len(failing), time.time() - t0))

    # ------------------------------------------------------------------ K4: the parser
    r = results["parsefn"]
    if r.get("error"):
        ctx.fail("parse_minimize_for_optimal probe failed: %s" % r["error"], {"strings": parse_strings}, found_input=False)
    else:
        KIND = {"compute_con_cost_flops": 0, "compute_con_cost_max": 1, "compute_con_cost_size": 2,
                "compute_con_cost_write": 3, "compute_con_cost_combo": 4, "compute_con_cost_limit": 5}
        pcases, precs = [], []
        for st, fname, fac in r["parsed"]:
            if not all(ch in "abcdefghijklmnopqrstuvwxyzABCDEFGHIJKLMNOPQRSTUVWXYZ0123456789.-= " for ch in st):
                continue
            lit = '"%s"%%string' % st
            if fname is None:
                pcases.append((st, "match parse_minimize %s with None => true | Some _ => false end" % lit, "true"))
                ctx.count("K4_rejected")
            else:
                pq = fac if fac is not None else [1, 1]
                pcases.append((st, "parse_agrees %s %d%%nat (%d)%%Z (%d)%%Z" % (lit, KIND[fname], pq[0], pq[1]), "true"))
                ctx.count("K4_accepted")
                if fac is not None and fac[1] != 1:
                    ctx.count("K4_fractional_weight")
            precs.append({"string": st, "impl": [fname, fac]})
        for (mini, cobj, okey) in OBJECTIVES:
            # the constructor literal used in K1/K2 for this string is what the parser model yields
            pcases.append((mini, "parse_minimize \"%s\"%%string" % mini, "(Some %s)" % cobj))
            precs.append({"string": mini, "literal": cobj})
        failing = ctx.coq_cases("c09_parse", ["OptimalProc"], pcases, chunk=200, timeout=600,
                                prelude="Require Import String.\nImport Ctg.Base.\nInstance Eqb_objective : Eqb objective := fun a b => "
                                        "match a, b with OFlops, OFlops | OMax, OMax | OSize, OSize | OWrite, OWrite => true "
                                        "| OCombo x, OCombo y | OLimit x, OLimit y => Z.eqb x y "
                                        "| OComboQ x u, OComboQ y v | OLimitQ x u, OLimitQ y v => Z.eqb x y && Z.eqb u v "
                                        "| _, _ => false end.")
        for idx, label, val in failing[:3]:
            rec = dict(precs[idx]) if idx < len(precs) else {}
            rec["model_value"] = val
            rec["correspondence"] = "Model/Optimal.v parse_minimize vs parse_minimize_for_optimal (kind and exact weight)"
            ctx.fail("model and implementation disagree on parsing the objective string %r" % label, rec, found_input=False)
        ctx.log("K4 done: %d strings, %d failing (%.1fs)" % (len(pcases), len(failing), time.time() - t0))

    # ------------------------------------------------------------------ K3
    cases, recs = [], []
    for k, ((inputs, output, sd), is_pre) in enumerate(init_nets):
        r = results["init%d" % k]
        rec = {"inputs": inputs, "output": output, "size_dict": sd, "precondition": is_pre}
        if r.get("skipped"):
            continue
        if r.get("error"):
            if is_pre:
                ctx.fail("ContractionProcessor init/simplify/subgraphs failed on a precondition network: %s"
                         % r["error"], rec)
            else:
                ctx.count("init_impl_error_on_perverse_net")
            continue
        n = len(inputs)
        pre_text = precondition(inputs, output, sd)
        if is_pre and not (r["simplify_noop"] and r["groups"] == [list(range(n))] == r["groups_after"]):
            # proved for the model (C09_simplify_is_noop, C09_subgraphs_is_single_component): the code differs
            ctx.fail("simplify() changed a precondition network or subgraphs() is not the single full component",
                     dict(rec, impl=r), found_input=False)
        netl = gen.net_lit(inputs, output, sd)
        lhs = ("let c := cp_of (proc_init %s) in (cp_nodes c, (cp_edges c, (cp_app c, (cp_sizes c, "
               "(cp_ssa c, (cp_subgraphs c, pre_b %s))))))" % (netl, netl))
        rhs = coq(([(int(i), [(int(a), int(b)) for a, b in lg]) for i, lg in r["nodes"]],
                   [(int(ix), [int(x) for x in ns]) for ix, ns in r["edges"]],
                   [int(a) for a in r["app"]], [Z(x) for x in r["sizes"]], int(r["ssa"]),
                   [[int(x) for x in g] for g in r["groups"]], bool(pre_text)))
        # empty lists need a type annotation
        rhs = rhs.replace("[]", "nil")
        cases.append(("init%d" % k, lhs, rhs))
        recs.append(dict(rec, impl=r))
        ctx.count("K3_pre_b_true" if pre_text else "K3_pre_b_false")
        if len(r["groups"]) > 1:
            ctx.count("K3_several_components")
    failing = ctx.coq_cases("c09_init", ["OptimalProc"], cases, chunk=40, timeout=900)
    for idx, label, val in failing[:3]:
        rec = dict(recs[idx]) if idx < len(recs) else {}
        rec["model_value"] = val
        rec["correspondence"] = ("Model/OptimalProc.v cp_of (proc_init net) / cp_subgraphs / pre_b vs "
                                 "ContractionProcessor.__init__ (nodes, edges, appearances, sizes, ssa), "
                                 "subgraphs(), and the text-level precondition")
        ctx.fail("model and implementation disagree on the initial processor state, subgraphs() or the precondition",
                 rec, found_input=False)
    ctx.log("K3 done: %d cases, %d failing (%.1fs)" % (len(cases), len(failing), time.time() - t0))

    # ------------------------------------------------------------------ K1
    cases, recs = [], []
    for job in jobs:
        if job["kind"] != "dp":
            continue
        r = results[job["id"]]
        rec = {k: job[k] for k in ("inputs", "output", "size_dict", "simplify", "minimize", "cap", "search_outer")}
        if r.get("skipped"):
            ctx.count("skipped_after_timeouts")
            continue
        if r.get("error"):
            # the property does not speak about perverse networks; on precondition networks
            # an exception / timeout of the real DP is a failure of the property
            if job["net"] == "precond":
                ctx.fail("optimize_optimal_connected failed on a precondition network: %s" % r["error"], rec)
            else:
                ctx.count("dp_impl_error_on_perverse_net")
                ctx.notes.append("perverse net, not judged: %s on %r" % (r["error"], rec)) if len(ctx.notes) < 5 else None
            continue
        app, szs = r["app"], r["sizes"]
        for g in r["groups"]:
            nt = len(g["where"])
            common = "%s %s %s %s %s %s %d%%nat %d%%nat (%d)%%Z" % (
                coq([int(a) for a in app]), coq([Z(s) for s in szs]), job["cobj"],
                coq(bool(job["search_outer"])), coq([int(w) for w in g["where"]]),
                "[" + "; ".join(legs_lit(l) for l in g["wlegs"]) + "]", g["ssa0"], FUEL, job["cap"] * DEN[job["minimize"]])
            pairs = [(int(a), int(b)) for a, b in g["pairs"]]
            try:
                if "trace" in g:
                    mn = job["minimize"]
                    ev = [([(int(a), int(b)) for a, b in e[0]], Z(zsc(mn, e[1])), Z(zsc(mn, e[2])),
                           [(int(a), int(b)) for a, b in e[3]], Z(zsc(mn, e[4]))) for e in g["trace"]]
                    lhs = ("match optimal_connected_tr %s with Some r => Some (fst (snd r), snd (snd (snd r))) "
                           "| None => None end" % common)
                    rhs = "(Some (%s, %s))" % (coq(pairs) if pairs else "(@nil (nat*nat))",
                                               coq(ev) if ev else "(@nil event)")
                    ctx.count("K1_traced_groups")
                    ctx.count("K1_trace_events", len(ev))
                else:
                    lhs = "option_map snd (optimal_connected %s)" % common
                    rhs = "(Some %s)" % (coq(pairs) if pairs else "(@nil (nat*nat))")
            except ValueError as e:
                ctx.fail("non-integral score in the DP trace: %s" % e, rec, found_input=False)
                continue
            cases.append((job["id"], lhs, rhs))
            recs.append(dict(rec, group=g["where"], impl_pairs=g["pairs"], ncalls=g["ncalls"]))
            ctx.count("K1_group_size_%d" % nt)
            if g["ncalls"] and nt >= 3:
                ctx.count("K1_nontrivial_groups")
            ctx.case(("dp", job["id"], tuple(g["where"])), nontrivial=nt >= 3,
                     sample=recs[-1] if len(cases) < 3 else None)
    failing = ctx.coq_cases("c09_dp", ["Optimal"], cases, chunk=12, timeout=900)
    for idx, label, val in failing[:3]:
        rec = dict(recs[idx]) if idx < len(recs) else {}
        rec["model_value"] = val
        rec["correspondence"] = "Model/Optimal.v optimal_connected[_tr] vs ContractionProcessor.optimize_optimal_connected"
        ctx.fail("model and implementation disagree on the DP (appended ssa pairs / cost-function call sequence)",
                 rec, found_input=False)
    ctx.log("K1 done: %d groups, %d failing (%.1fs)" % (len(cases), len(failing), time.time() - t0))

    ctx.coverage["rule"] = (
        "K1: ContractionProcessor states from precondition networks (1/3) and perverse networks (2/3: repeated "
        "indices, scalars, disconnected, hyper, leaf-only, index on all tensors), simplify on/off, every connected "
        "group, random objective (10 strings incl. custom factors), cap in %r, both search_outer; half with the full "
        "cost-function call trace.  K2/oracle: 4/12 directed arm/hub networks (k arms of >= 2 tensors collapsing to small vectors, hub with a large "
        "open index) on which, by enumeration, every optimal tree for some objective takes the outer product of two "
        "multi-tensor intermediates (generator floor: the run fails if there is none); 5/16 directed two-cluster networks (dims 2..7, n=5..7) with a sweep of small initial caps chosen, by "
        "enumeration, so that for size/max a worse tree lies in the first cap bracket in which the optimal tree's two "
        "non-leaf halves have a score SUM above the cap (exposes pruning rules that are sound only for additive "
        "objectives); 6/24 directed networks on which the objectives provably disagree "
        "(no flops-optimal tree is max-optimal / no write-optimal tree is size-optimal, found by enumeration) + "
        "precondition networks n=3..8/9 (tree/ring/dense/random shapes, hyper "
        "indices, dangling and shared output indices, mixed dims incl. 1 and 64) x 6 named objectives x both "
        "search_outer x 3 caps (default 2, a tiny one, a large one) + 3 custom-factor configs, entry point in "
        "{optimize_optimal, OptimalOptimizer.ssa_path, OptimalOptimizer.__call__}; oracle enumeration n<=%d, "
        "Coq brute_min n<=%d; non-trivial = n>=4 (e2e) / group size>=3 (K1); distinct by full configuration"
        % (CAPS, enum_limit + 1, enum_limit))
    ctx.assumptions = [
        "cost_cap is a positive integer (a cap <= 0 never grows: the while loop would not terminate; float caps are not modelled)",
        "custom factors are non-negative integers (the only ones parse_minimize_for_optimal's regex accepts)",
        "the correspondence between Model/Optimal.v and path_basic.py is executed on generated cases, not proved",
        "cotengrust (accelerated optimal search) is absent in this environment: the pure-python path is what is checked",
    ]
    ctx.trusted.append("harness/props/c09.py: independent tree enumerator and cost evaluator written from the property text")


if __name__ == "__main__":
    if len(sys.argv) > 1 and sys.argv[1] == "--worker":
        worker_main()
    else:
        sys.path.insert(0, os.path.join(os.path.dirname(os.path.dirname(HERE))))
        from vlib.core import main
        main(PROP, run)

"""Shared machinery of the cotengra verification checks.

A check (harness/props/cNN.py) does, in this order:
  1. full Coq build (make, .vo), lint for forbidden vernacular,
  2. re-compiles Props/CNN.v capturing `Print Assumptions` for every theorem,
  3. runs the correspondence: the real code from /repo and the Coq model are
     evaluated on the same generated inputs (model inside coqc, vm_compute),
  4. runs the end-to-end oracle comparison of the implementation against an
     independent specification,
  5. writes evidence/CNN.json and prints VIOLATION / KNOWN-FINDING lines.
Nothing here edits KNOWN_FINDINGS.txt.
"""

import hashlib
import json
import os
import random
import re
import shutil
import subprocess
import sys
import tempfile
import time
import traceback

VERIF = os.path.dirname(os.path.dirname(os.path.dirname(os.path.abspath(__file__))))
COQ = os.path.join(VERIF, "coq")
REPO = os.environ.get("VERIF_REPO", "/repo")
QFLAGS = ["-Q", "Model", "Ctg", "-Q", "Proofs", "Ctg", "-Q", "Props", "Ctg", "-Q", "Gen", "Ctg",
          "-w", "-notation-overridden,-deprecated-hint-without-locality,-deprecated-instance-without-locality"]

FORBIDDEN = re.compile(
    r"\b(Admitted|admit|Axiom|Axioms|Parameter|Parameters|Conjecture|Conjectures|"
    r"Admit\s+Obligations|bypass_check|native_compute)\b|Unset\s+Guard|Unset\s+Positivity|"
    r"Unset\s+Universe|type-in-type|impredicative-set"
)

# axioms of the standard library that a property may rely on (named in DESIGN.md section 7)
STDLIB_AXIOMS = {
    "ClassicalDedekindReals.sig_forall_dec",
    "ClassicalDedekindReals.sig_not_dec",
    "FunctionalExtensionality.functional_extensionality_dep",
    "functional_extensionality_dep",
    "Classical_Prop.classic",
    "classic",
    "sig_forall_dec",
    "sig_not_dec",
}


def sh(cmd, timeout=None, cwd=None, env=None, input=None):
    p = subprocess.run(cmd, cwd=cwd, env=env, input=input, capture_output=True, text=True, timeout=timeout)
    return p.returncode, p.stdout, p.stderr


def strip_comments(src):
    out, depth, i = [], 0, 0
    while i < len(src):
        if src.startswith("(*", i):
            depth += 1
            i += 2
        elif src.startswith("*)", i) and depth:
            depth -= 1
            i += 2
        else:
            if not depth:
                out.append(src[i])
            i += 1
    return "".join(out)


# ---------------------------------------------------------------------------
# Python value -> Coq literal
class Z(int):
    """marks an integer to be printed as a Coq Z literal"""


class Raw(str):
    """a Coq term given verbatim"""


def coq(x):
    if isinstance(x, Raw):
        return str(x)
    if isinstance(x, bool):
        return "true" if x else "false"
    if isinstance(x, Z):
        return "(%d)%%Z" % int(x)
    if isinstance(x, int):
        if x < 0:
            raise ValueError("negative nat literal %r" % (x,))
        return "%d%%nat" % x
    if x is None:
        return "None"
    if isinstance(x, Some):
        return "(Some %s)" % coq(x.v)
    if isinstance(x, (list,)):
        return "[" + "; ".join(coq(v) for v in x) + "]"
    if isinstance(x, tuple):
        if len(x) == 0:
            return "tt"
        if len(x) == 1:
            return coq(x[0])
        return "(%s, %s)" % (coq(x[0]), coq(tuple(x[1:])))
    raise TypeError("no Coq literal for %r" % (x,))


class Some:
    def __init__(self, v):
        self.v = v


def tree_lit(t):
    """nested tuple of ints -> Coq tree literal"""
    if isinstance(t, int):
        return "(Leaf %d)" % t
    l, r = t
    return "(Node %s %s)" % (tree_lit(l), tree_lit(r))


# ---------------------------------------------------------------------------
class KnownFindings:
    def __init__(self, path=os.path.join(VERIF, "KNOWN_FINDINGS.txt")):
        self.known = {}   # (prop, key) -> text
        self.fixed = []
        if os.path.exists(path):
            for line in open(path):
                line = line.strip()
                m = re.match(r"known:\s+property=(C\d+)\s+key=(\S+)\s+(.*)", line)
                if m:
                    self.known[(m.group(1), m.group(2))] = m.group(3)
                m = re.match(r"fixed:\s+property=(C\d+)\s+(\S+)\s+(.*)", line)
                if m:
                    self.fixed.append(m.groups())


class Ctx:
    def __init__(self, prop, tier, seed, replay=None):
        self.prop = prop
        self.tier = tier
        self.quick = tier == "quick"
        self.seed = seed
        self.rng = random.Random(seed * 1000003 + int(prop[1:]))
        self.t0 = time.time()
        self.kf = KnownFindings()
        self.violations = []          # (replay path, found_input)
        self.known_hits = {}          # key -> text
        self.coverage = {"evaluations": 0, "distinct_nontrivial": 0, "samples": [], "rule": "",
                         "features": {}, "correspondence": {}, "theorems": []}
        self.assumptions = []
        self.obligations = 0
        self.discharged = 0
        self.trusted = []
        self.distinct = set()
        self.notes = []
        self.scratch = tempfile.mkdtemp(prefix="ctgverif_%s_" % prop)
        self.replay_dir = os.path.join(VERIF, "replays", prop)
        self.replay_mode = replay
        self.meta = {}

    # -- sizes of runs -----------------------------------------------------
    def n(self, quick, thorough):
        return quick if self.quick else thorough

    def log(self, *a):
        print("[%s %6.1fs]" % (self.prop, time.time() - self.t0), *a, flush=True)

    # -- coverage accounting ----------------------------------------------
    def count(self, what, k=1):
        f = self.coverage["features"]
        f[what] = f.get(what, 0) + k

    def case(self, key, nontrivial=True, sample=None):
        """register one explored case; key identifies it for distinctness"""
        self.coverage["evaluations"] += 1
        if nontrivial:
            h = hashlib.sha1(repr(key).encode()).hexdigest()[:16]
            self.distinct.add(h)
        if sample is not None and len(self.coverage["samples"]) < 6:
            self.coverage["samples"].append(sample)

    # -- Coq build ----------------------------------------------------------
    def coq_build(self, timeout=2400, targets=None):
        """full .vo build (never -vos) of Props/<prop>.vo and everything it depends on
        (plus `targets`); `sh setup.sh` builds the whole development.  Returns True on success."""
        rc, out, err = sh(["sh", os.path.join(COQ, "gen_project.sh")], timeout=120)
        t = time.time()
        tg = ["Props/%s.vo" % os.path.basename(f)[:-2] for f in self.prop_files()] + list(targets or [])
        try:
            rc, out, err = sh(["timeout", str(timeout), "make", "-C", COQ, "-j16"] + tg, timeout=timeout + 30)
        except subprocess.TimeoutExpired:
            rc, out, err = 124, "", "make timed out"
        self.coverage["coq_build_s"] = round(time.time() - t, 1)
        if rc != 0:
            self.build_log = (out + err)[-4000:]
            return False
        return True

    def coq_lint(self):
        bad = []
        for sub in ("Model", "Proofs", "Props", "Gen"):
            d = os.path.join(COQ, sub)
            if not os.path.isdir(d):
                continue
            for f in sorted(os.listdir(d)):
                if f.endswith(".v"):
                    src = strip_comments(open(os.path.join(d, f)).read())
                    for m in FORBIDDEN.finditer(src):
                        bad.append("%s/%s: %s" % (sub, f, m.group(0)))
        return bad

    def prop_files(self):
        """Props/<prop>.v plus supplementary files Props/<prop><suffix>.v (e.g. C01ord.v)"""
        d = os.path.join(COQ, "Props")
        out = []
        if os.path.isdir(d):
            for f in sorted(os.listdir(d)):
                if re.match(r"^%s[a-z]*\.v$" % self.prop, f):
                    out.append(os.path.join(d, f))
        return out

    def props_assumptions(self, allowed=()):
        """re-compile every Props file of the property, capture Print Assumptions per theorem.
        returns (ok, theorems) with theorems = [(name, 'closed' | [axioms])]"""
        files = self.prop_files()
        if not any(os.path.basename(f) == self.prop + ".v" for f in files):
            return False, []
        all_ok, all_thms = True, []
        self.obligations = 0
        self.discharged = 0
        for pf in files:
            ok, thms, nobl, ndis = self._props_file(pf, allowed)
            self.obligations += nobl
            self.discharged += ndis
            all_ok = all_ok and ok
            all_thms += thms
        self.coverage["theorems"] = [{"name": nm, "assumptions": a} for nm, a in all_thms]
        if not all_ok:
            self.discharged = min(self.discharged, max(0, self.obligations - 1))
        return all_ok, all_thms

    def _props_file(self, pf, allowed):
        src = strip_comments(open(pf).read())
        names = re.findall(r"^\s*(?:Theorem|Corollary)\s+([A-Za-z0-9_']+)", src, re.M)
        printed = re.findall(r"Print\s+Assumptions\s+([A-Za-z0-9_'.]+)\s*\.", src)
        tmpvo = os.path.join(self.scratch, os.path.basename(pf) + "o")
        try:
            rc, out, err = sh(["timeout", "900", "coqc"] + QFLAGS + ["-o", tmpvo, pf], cwd=COQ, timeout=930)
        except subprocess.TimeoutExpired:
            rc, out, err = 124, "", "timeout"
        if rc != 0:
            self.props_log = os.path.basename(pf) + ": " + (out + err)[-3000:]
            m = re.search(r"line (\d+)", err)
            done = 0
            if m:
                upto = "\n".join(open(pf).read().split("\n")[: int(m.group(1)) - 1])
                done = len(re.findall(r"^\s*(?:Theorem|Corollary)\s+", strip_comments(upto), re.M))
                done = max(0, done - 1)
            return False, [], len(names), done
        blocks = re.split(r"(?=Closed under the global context|Axioms:)", out)
        blocks = [b for b in blocks if b.startswith("Closed under") or b.startswith("Axioms:")]
        theorems = []
        ok = True
        missing = [nm for nm in names if nm not in printed]
        if missing or len(blocks) != len(printed):
            ok = False
            self.props_log = "%s: theorems without Print Assumptions: %s (blocks %d, printed %d)" % (
                os.path.basename(pf), missing, len(blocks), len(printed))
        for nm, b in zip(printed, blocks):
            if b.startswith("Closed"):
                theorems.append((nm, "closed"))
            else:
                axs = [a for a in re.findall(r"^([A-Za-z0-9_.']+)\s*:", b, re.M) if a != "Axioms"]
                theorems.append((nm, axs))
                for a in axs:
                    if a not in STDLIB_AXIOMS and a not in allowed:
                        ok = False
                        self.props_log = "unexpected assumption %s under %s" % (a, nm)
        return ok, theorems, len(names), (len(names) if ok else 0)

    # -- correspondence cases evaluated inside Coq -------------------------------
    def coq_cases(self, name, imports, cases, chunk=250, timeout=600, prelude=""):
        """cases: list of (label, lhs_term, rhs_term) ; each is checked as
        `eqb lhs rhs` by vm_compute.  Returns list of failing (index, label, model_value_text)."""
        if not cases:
            return []
        files = []
        for ci in range(0, len(cases), chunk):
            part = cases[ci: ci + chunk]
            fn = os.path.join(self.scratch, "%s_%d.v" % (name, ci // chunk))
            with open(fn, "w") as f:
                f.write("From Ctg Require Import %s.\n" % " ".join(imports))
                f.write("Open Scope nat_scope.\n")
                f.write(prelude + "\n")
                for k, (_, lhs, rhs) in enumerate(part):
                    f.write("Definition c%d : bool := eqb (%s) (%s).\n" % (k, lhs, rhs))
                f.write("Definition allc : list bool := [%s].\n" % "; ".join("c%d" % k for k in range(len(part))))
                f.write("Eval vm_compute in (failing allc).\n")
            files.append((ci, fn, part))
        procs = []
        results = []

        def launch(item):
            ci, fn, part = item
            return subprocess.Popen(["timeout", str(timeout), "coqc"] + QFLAGS + ["-o", fn + "o", fn],
                                    cwd=COQ, stdout=subprocess.PIPE, stderr=subprocess.PIPE, text=True)

        pending = list(files)
        running = []
        while pending or running:
            while pending and len(running) < 16:
                it = pending.pop(0)
                running.append((it, launch(it)))
            it, p = running.pop(0)
            out, err = p.communicate()
            results.append((it, p.returncode, out, err))
        # a coqc run that hit its wall-clock limit (machine under load) is repeated once, alone,
        # with four times the limit, before anything is concluded from it
        retried = []
        for (it, rc, out, err) in results:
            if rc in (124, 137, -9):
                self.log("coqc hit its %ds limit on %s; repeating it alone with %ds" % (
                    timeout, os.path.basename(it[1]), 4 * timeout))
                p = subprocess.Popen(["timeout", str(4 * timeout), "coqc"] + QFLAGS + ["-o", it[1] + "o", it[1]],
                                     cwd=COQ, stdout=subprocess.PIPE, stderr=subprocess.PIPE, text=True)
                out, err = p.communicate()
                rc = p.returncode
                if rc in (124, 137, -9):
                    err = (err or "") + "\ncoqc did not finish within %d s" % (4 * timeout)
            retried.append((it, rc, out, err))
        results = retried
        failing = []
        for (ci, fn, part), rc, out, err in results:
            if rc != 0:
                # a case that does not even type-check / evaluate: report all as failing
                failing.append((ci, part[0][0], "coqc failed: " + (err or out)[-1500:]))
                continue
            m = re.search(r"=\s*\[(.*?)\]\s*:\s*list nat", out, re.S)
            if not m:
                failing.append((ci, part[0][0], "unparsable coqc output: " + out[-500:]))
                continue
            idx = [int(x.replace("%nat", "")) for x in re.findall(r"\d+", m.group(1))]
            for k in idx:
                # the model's value is printed for the first few failing cases only (each costs a coqc run)
                nval = sum(1 for f in failing if not str(f[2]).startswith("(not evaluated"))
                val = self._coq_value(imports, prelude, part[k][1]) if nval < 4 else "(not evaluated: see earlier cases)"
                failing.append((ci + k, part[k][0], val))
        self.coverage["correspondence"][name] = {
            "cases": len(cases), "failing": len(failing)}
        return failing

    def _coq_value(self, imports, prelude, term):
        fn = os.path.join(self.scratch, "val_%d.v" % random.randrange(10 ** 9))
        with open(fn, "w") as f:
            f.write("From Ctg Require Import %s.\nOpen Scope nat_scope.\n%s\nEval vm_compute in (%s).\n" % (
                " ".join(imports), prelude, term))
        try:
            rc, out, err = sh(["timeout", "120", "coqc"] + QFLAGS + ["-o", fn + "o", fn], cwd=COQ, timeout=130)
        except subprocess.TimeoutExpired:
            return "timeout"
        return re.sub(r"\s+", " ", (out or err))[-1500:]

    def coq_eval(self, imports, terms, prelude="", timeout=600):
        """evaluate terms with vm_compute; returns list of printed strings (one per term)"""
        fn = os.path.join(self.scratch, "eval_%d.v" % random.randrange(10 ** 9))
        with open(fn, "w") as f:
            f.write("From Ctg Require Import %s.\nOpen Scope nat_scope.\n%s\n" % (" ".join(imports), prelude))
            for t in terms:
                f.write("Eval vm_compute in (%s).\n" % t)
        rc, out, err = sh(["timeout", str(timeout), "coqc"] + QFLAGS + ["-o", fn + "o", fn], cwd=COQ, timeout=timeout + 30)
        if rc != 0:
            raise RuntimeError("coq_eval failed: " + (err or out)[-2000:])
        parts = re.split(r"^\s*=\s", out, flags=re.M)[1:]
        return [re.sub(r"\s+", " ", p).strip() for p in parts]

    # -- reporting ---------------------------------------------------------
    def known_key(self, key):
        return (self.prop, key) in self.kf.known

    def fail(self, what, replay, key=None, found_input=True):
        """report a property failure.  `key` classifies it; if KNOWN_FINDINGS lists
        (prop,key) it is a KNOWN-FINDING, else a VIOLATION with a replay file."""
        if key is not None and self.known_key(key):
            if key not in self.known_hits:
                self.known_hits[key] = self.kf.known[(self.prop, key)]
            return False
        os.makedirs(self.replay_dir, exist_ok=True)
        h = hashlib.sha1(json.dumps(replay, sort_keys=True, default=repr).encode()).hexdigest()[:10]
        path = os.path.join(self.replay_dir, "%s_%s.json" % (self.prop, h))
        with open(path, "w") as f:
            json.dump({"property": self.prop, "what": what, "key": key,
                       "failing_input_found": found_input, "replay": replay},
                      f, indent=1, default=repr)
        if len(self.violations) < 10:
            self.violations.append((path, found_input, what))
        return True

    def finish(self, level="proof", level_keys=None, write_evidence=True):
        cov = self.coverage
        cov["distinct_nontrivial"] = len(self.distinct)
        cov["obligations"] = self.obligations
        cov["discharged"] = self.discharged
        cov["checker_cmd"] = "make -C /verif/coq -j16 Props/%s*.vo (coqc 8.16.1, full .vo build of the dependency closure) + coqc Props/%s*.v (Print Assumptions)" % (self.prop, self.prop)
        cov["trusted_base"] = [
            "Coq 8.16.1 kernel (coqc; vm_compute used for case evaluation and finite sweeps; no native_compute)",
            "hand-written Gallina model tied to /repo by the executed correspondence of this run",
            "Python harness + independent oracle (harness/vlib/oracle.py)",
        ] + list(self.trusted)
        if self.notes:
            cov["notes"] = self.notes
        if self.obligations == 0 or self.discharged != self.obligations:
            # evidence must not claim a proof that did not check
            pass
        ev = {
            "property_id": self.prop,
            "tier": self.tier,
            "seed": self.seed,
            "level": level,
            "coverage": cov,
            "assumptions": self.assumptions,
            "wall_s": round(time.time() - self.t0, 2),
            "violations": len(self.violations),
            "known_findings_hit": sorted(self.known_hits),
        }
        if write_evidence:
            os.makedirs(os.path.join(VERIF, "evidence"), exist_ok=True)
            with open(os.path.join(VERIF, "evidence", self.prop + ".json"), "w") as f:
                json.dump(ev, f, indent=1, default=repr)
        for key, text in sorted(self.known_hits.items()):
            print("KNOWN-FINDING: property=%s key=%s %s" % (self.prop, key, text))
        for path, found, what in self.violations:
            print("VIOLATION property=%s replay=%s%s" % (
                self.prop, path, "" if found else " no-failing-input-found"))
        shutil.rmtree(self.scratch, ignore_errors=True)
        return 1 if self.violations else 0


def standard_proof_steps(ctx, allowed_axioms=(), targets=None):
    """steps 1-2 of every check.  A broken build / lint / assumption is reported as a
    violation without failing input (the property is no longer shown to hold)."""
    ok = ctx.coq_build(targets=targets)
    if not ok:
        ctx.fail("Coq development does not build", {"theorem": "make -C coq", "log": getattr(ctx, "build_log", "")},
                 found_input=False)
        return False
    bad = ctx.coq_lint()
    if bad:
        ctx.fail("forbidden vernacular in the Coq development", {"lint": bad}, found_input=False)
        return False
    ok, thms = ctx.props_assumptions(allowed=allowed_axioms)
    if not ok:
        ctx.fail("Props/%s.v does not check or has unexpected assumptions" % ctx.prop,
                 {"theorem": "Props/%s.v" % ctx.prop, "log": getattr(ctx, "props_log", "")}, found_input=False)
        return False
    ctx.log("coq ok: %d theorems, assumptions: %s" % (
        len(thms), sorted({a for _, ax in thms if ax != "closed" for a in ax}) or "closed"))
    return True


def main(prop, run):
    import argparse
    ap = argparse.ArgumentParser()
    ap.add_argument("--tier", default=os.environ.get("VERIF_TIER", "quick"))
    ap.add_argument("--replay", default=None)
    args = ap.parse_args(sys.argv[2:] if len(sys.argv) > 1 and sys.argv[1].startswith("C") else None)
    tier = args.tier if args.tier in ("quick", "thorough") else "quick"
    seed = int(os.environ.get("VERIF_SEED", "0") or 0)
    if args.replay:
        # show the recorded case; a property module may define replay(ctx, data) to re-run it
        data = json.load(open(args.replay))
        print(json.dumps(data, indent=1, default=repr)[:20000])
        mod = sys.modules.get("__main__")
        if hasattr(mod, "replay"):
            ctx = Ctx(prop, tier, seed, replay=args.replay)
            try:
                mod.replay(ctx, data)
            except Exception:
                ctx.fail("replay raised", {"traceback": traceback.format_exc()}, found_input=False)
            sys.exit(ctx.finish(write_evidence=False))
        print("VIOLATION property=%s replay=%s%s" % (
            prop, args.replay, "" if data.get("failing_input_found", True) else " no-failing-input-found"))
        sys.exit(1)
    ctx = Ctx(prop, tier, seed, replay=args.replay)
    try:
        run(ctx)
    except Exception:
        tb = traceback.format_exc()
        ctx.log("harness exception:\n" + tb)
        ctx.fail("harness raised an exception (check broken or implementation raised outside a guarded call)",
                 {"traceback": tb}, found_input=False)
    rc = ctx.finish()
    sys.exit(rc)

"""Generators of networks, trees and arrays.  All randomness comes from the
`random.Random` handed in.  Index labels are single characters; SYM maps the
k-th label to the Coq index number k."""

import itertools

SYMS = "abcdefghijklmnopqrstuvwxyzABCDEFGHIJKLMNOPQRSTUVWXYZ"
IDX = {c: i for i, c in enumerate(SYMS)}


def rand_net(rng, nmin=2, nmax=6, max_ix=7, max_rank=4, dmax=3, p_hyper=0.3, p_repeat=0.25,
             p_scalar=0.1, p_disconnected=0.15, p_size1=0.2, p_out=0.4, ordinary=False):
    """A random network with the perverse features the properties quantify over.
    returns (inputs: list[tuple[str]], output: tuple[str], size_dict)"""
    N = rng.randint(nmin, nmax)
    nix = rng.randint(1, max_ix)
    syms = list(SYMS[:nix])
    want_hyper = (not ordinary or True) and rng.random() < p_hyper
    want_repeat = (not ordinary) and rng.random() < p_repeat
    want_scalar = (not ordinary) and rng.random() < p_scalar
    want_disc = rng.random() < p_disconnected
    inputs = [[] for _ in range(N)]
    # each index is placed on 1..k tensors
    for s in syms:
        r = rng.random()
        if want_hyper and r < 0.35:
            k = rng.randint(3, max(3, min(N, 4)))
        elif r < 0.15:
            k = 1
        else:
            k = 2
        k = min(k, N)
        if want_disc and N >= 4:
            half = N // 2
            pool = list(range(half)) if rng.random() < 0.5 else list(range(half, N))
            k = min(k, len(pool))
            where = rng.sample(pool, k)
        else:
            where = rng.sample(range(N), k)
        for w in where:
            if len(inputs[w]) < max_rank:
                inputs[w].append(s)
                if want_repeat and rng.random() < 0.3 and len(inputs[w]) < max_rank:
                    inputs[w].append(s)
    for t in inputs:
        rng.shuffle(t)
    if want_scalar:
        inputs[rng.randrange(N)] = []
    present = [s for s in syms if any(s in t for t in inputs)]
    out = [s for s in present if rng.random() < p_out * (0.5 if sum(s in t for t in inputs) > 1 else 1.0)]
    rng.shuffle(out)
    size_dict = {s: (1 if rng.random() < p_size1 else rng.randint(2, dmax)) for s in syms}
    inputs = [tuple(t) for t in inputs]
    return inputs, tuple(out), size_dict


def net_features(inputs, output, size_dict):
    f = set()
    allix = [ix for t in inputs for ix in t]
    cnt = {}
    for ix in allix:
        cnt[ix] = cnt.get(ix, 0) + 1
    ntens = {ix: sum(ix in t for t in inputs) for ix in cnt}
    if any(ntens[ix] + (ix in output) > 2 for ix in cnt):
        f.add("hyper")
    if any(len(set(t)) != len(t) for t in inputs):
        f.add("repeat")
    if any(len(t) == 0 for t in inputs):
        f.add("scalar")
    if any(size_dict[ix] == 1 for ix in cnt):
        f.add("size1")
    if any(ntens[ix] > 1 and ix in output for ix in cnt):
        f.add("out_shared")
    if any(ntens[ix] == len(inputs) for ix in cnt) and len(inputs) > 1:
        f.add("on_all")
    if any(ntens[ix] == 1 and ix not in output for ix in cnt):
        f.add("leaf_only")
    # connectivity
    comp = list(range(len(inputs)))

    def find(a):
        while comp[a] != a:
            a = comp[a]
        return a
    for ix in cnt:
        ws = [i for i, t in enumerate(inputs) if ix in t]
        for w in ws[1:]:
            comp[find(w)] = find(ws[0])
    if len({find(i) for i in range(len(inputs))}) > 1:
        f.add("disconnected")
    if output:
        f.add("has_output")
    return f


def rand_path(rng, n):
    """uniformly random linear path over n tensors"""
    path = []
    m = n
    while m > 1:
        i, j = sorted(rng.sample(range(m), 2))
        path.append((i, j))
        m -= 1
    return tuple(path)


def rand_ssa_path(rng, n):
    live = list(range(n))
    nxt = n
    path = []
    while len(live) > 1:
        i, j = rng.sample(live, 2)
        live.remove(i)
        live.remove(j)
        path.append((i, j))
        live.append(nxt)
        nxt += 1
    return tuple(path)


def rand_arrays(rng, inputs, size_dict, lo=-3, hi=3):
    """small integer arrays (int64) so that every kernel is exact"""
    import numpy as np
    arrays = []
    for t in inputs:
        shape = tuple(size_dict[ix] for ix in t)
        n = 1
        for d in shape:
            n *= d
        vals = [rng.randint(lo, hi) for _ in range(n)]
        arrays.append(np.array(vals, dtype=np.int64).reshape(shape))
    return arrays


def tree_nested(tree, node=None):
    """nested (l, r) tuple of leaf numbers following tree.children's (l, r) order"""
    if node is None:
        node = tree.root
    if len(node) == 1:
        (k,) = node
        return k
    l, r = tree.children[node]
    return (tree_nested(tree, l), tree_nested(tree, r))


def nested_leaves(t):
    if isinstance(t, int):
        return [t]
    return nested_leaves(t[0]) + nested_leaves(t[1])


def nested_postorder(t):
    """internal nodes (as nested tuples) left, right, node"""
    if isinstance(t, int):
        return []
    return nested_postorder(t[0]) + nested_postorder(t[1]) + [t]


def net_lit(inputs, output, size_dict):
    from .core import coq, Z
    ins = [[IDX[c] for c in t] for t in inputs]
    out = [IDX[c] for c in output]
    sz = [(IDX[c], Z(v)) for c, v in sorted(size_dict.items(), key=lambda kv: IDX[kv[0]])]
    return "(mkNet %s %s %s)" % (coq(ins), coq(out), coq(sz))


def legs_lit(legs):
    """Python legs dict (insertion ordered) -> Coq literal"""
    from .core import coq
    return coq([(IDX[k], v) for k, v in legs.items()])


def all_partitions_paths(n):
    """all ssa paths for n leaves (exhaustive, small n)"""
    def rec(live, nxt):
        if len(live) == 1:
            yield ()
            return
        for i, j in itertools.combinations(live, 2):
            rest = [x for x in live if x not in (i, j)] + [nxt]
            for tail in rec(rest, nxt + 1):
                yield ((i, j),) + tail
    return rec(list(range(n)), n)

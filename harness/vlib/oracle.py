"""Independent executable specifications, written from the property texts and
sharing no code with cotengra.  Used to judge the implementation end-to-end and
to search for a concrete failing input when a proof or a correspondence breaks."""

import itertools


def dense_einsum(inputs, output, size_dict, arrays, fixed=None):
    """The mathematical einsum by explicit enumeration of index assignments.
    arrays: nested lists / numpy arrays indexable by tuples.  `fixed` pins some
    indices to a value (projection).  Returns {output assignment tuple: value}
    and the shape; exact Python integer / Fraction arithmetic."""
    fixed = dict(fixed or {})
    allix = []
    for t in inputs:
        for ix in t:
            if ix not in allix:
                allix.append(ix)
    for ix in output:
        if ix not in allix:
            allix.append(ix)
    free = [ix for ix in allix if ix not in fixed]
    res = {}
    for vals in itertools.product(*[range(size_dict[ix]) for ix in free]):
        env = dict(zip(free, vals))
        env.update(fixed)
        p = 1
        for t, a in zip(inputs, arrays):
            v = a[tuple(env[ix] for ix in t)] if len(t) else a[()]
            v = v.item() if hasattr(v, "item") else v
            p *= v
            if p == 0:
                break
        key = tuple(env[ix] for ix in output if ix not in fixed)
        res[key] = res.get(key, 0) + p
    return res


def dense_to_nested(res, output, size_dict, fixed=()):
    """dict from dense_einsum -> numpy object array of python ints in output order"""
    import numpy as np
    out = [ix for ix in output if ix not in fixed]
    shape = tuple(size_dict[ix] for ix in out)
    arr = np.zeros(shape, dtype=object)
    for k, v in res.items():
        arr[k] = v
    return arr


def dense_reference(inputs, output, size_dict, arrays, projected=None):
    """reference result in the implementation's layout: declared output order, a projected
    output index stays as an axis of length 1 (the fixed-index section), everything else full"""
    import numpy as np
    projected = dict(projected or {})
    res = dense_einsum(inputs, output, size_dict, arrays, fixed=projected)
    shape = tuple(1 if ix in projected else size_dict[ix] for ix in output)
    arr = np.zeros(shape, dtype=object)
    free_pos = [i for i, ix in enumerate(output) if ix not in projected]
    for k, v in res.items():
        full = [0] * len(output)
        for i, kv in zip(free_pos, k):
            full[i] = kv
        arr[tuple(full)] = v
    return arr


def arrays_equal_exact(x, ref):
    """x: implementation result (numpy int array or scalar); ref: object array"""
    import numpy as np
    x = np.asarray(x)
    if tuple(x.shape) != tuple(ref.shape):
        return False
    if x.size == 0:
        return True
    return bool(np.all(x.astype(object) == ref))


# ---------------------------------------------------------------------------
# costs, from the text of C03: per step, flops = product of the dimensions of all
# indices involved, size = product of the dimensions of the indices that survive.
def prod(xs):
    p = 1
    for x in xs:
        p *= x
    return p


def spec_surviving(inputs, output, S, removed=()):
    """indices carried by the intermediate that contains exactly the leaves S:
    those that occur on S and also somewhere outside S (another tensor or the output)"""
    S = set(S)
    res = set()
    for ix in {ix for i in S for ix in inputs[i]}:
        if ix in removed:
            continue
        outside = ix in output or any(ix in inputs[j] for j in range(len(inputs)) if j not in S)
        inside_all = False
        if outside:
            res.add(ix)
    return res


def spec_leaf_indices(inputs, output, i, removed=()):
    """indices of leaf i once its own traces / sums have been done (preprocessing)"""
    return spec_surviving(inputs, output, [i], removed)


def spec_costs(inputs, output, size_dict, nested, removed=(), projected=()):
    """per internal node (post-order) (leafset, surviving, involved, size, flops),
    totals and max, computed from the network alone.
    removed: all sliced+projected indices; projected: the projected ones"""
    from .gen import nested_leaves, nested_postorder
    N = len(inputs)
    rows = []
    for nd in nested_postorder(nested):
        L, R = nested_leaves(nd[0]), nested_leaves(nd[1])
        S = L + R
        if len(S) == N:
            surv = {ix for ix in output if ix not in removed}
        else:
            surv = spec_surviving(inputs, output, S, removed)
        inv = spec_surviving(inputs, output, L, removed) | spec_surviving(inputs, output, R, removed)
        rows.append((frozenset(S), surv, inv, prod(size_dict[ix] for ix in surv), prod(size_dict[ix] for ix in inv)))
    mult = prod(size_dict[ix] for ix in removed if ix not in projected)
    return {
        "rows": rows,
        "flops": mult * sum(r[4] for r in rows),
        "write": mult * sum(r[3] for r in rows),
        "size": max([r[3] for r in rows], default=None),
        "multiplicity": mult,
    }


def path_is_valid_linear(n, path):
    """every step references existing positions; ends with a single tensor when complete"""
    m = n
    for step in path:
        step = tuple(step)
        if len(set(step)) != len(step) or len(step) < 1:
            return False
        if any((not isinstance(i, int)) or i < 0 or i >= m for i in step):
            return False
        m = m - len(step) + 1
    return m == 1


def tree_is_complete(tree):
    """each input consumed exactly once, ends in a single tensor (structure only)"""
    N = tree.N
    ch = tree.children
    root = frozenset(range(N))
    if N == 1:
        return True
    seen_leaves = []
    stack = [root]
    count = 0
    while stack:
        x = stack.pop()
        if len(x) == 1:
            seen_leaves.append(next(iter(x)))
            continue
        if x not in ch:
            return False
        l, r = ch[x]
        if (l | r) != x or (l & r) or not l or not r:
            return False
        count += 1
        stack.extend((l, r))
    return sorted(seen_leaves) == list(range(N)) and count == N - 1 and len(ch) == N - 1

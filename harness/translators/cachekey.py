#!/usr/bin/env python3
"""cachekey.py -- fail-closed translator: cotengra/interface.py  ->  coq/Gen/CacheKey.v

Reads (with Python's `ast`, nothing is imported or executed) the functions of
interface.py that implement the in-memory caches and emits, as Coq definitions over
the vocabulary of Model/CacheState.v:

  * the expression `hash_contraction` returns (which parameters reach the dict key,
    through which view: x, tuple(x.items()), frozenset(x.items()),
    hash_prepare_optimize(x); whether it goes through hash(); len(.) components),
    instantiated at each caching call site (`expr_key_expr`, `path_key_expr`);
  * `*_key_fields`: the caller's locals that reach the key;
  * `*_used_fields`: the caller's locals that are handed to the cached computation
    (`_build_expression(...)` / `find_path(...)`), i.e. everything that can influence
    the cached object;
  * whether a TypeError of the key computation is caught and the call falls back to
    the uncached computation (`*_typeerror_fallback`);
  * the per-class dispatch chains of find_path / find_tree / hash_prepare_optimize and
    the classes accepted by can_hash_optimize.

The translator recognises exactly the statement shapes listed below.  Anything else --
an extra statement, a different test, a computed argument -- makes it stop with exit
status 2 and a line starting with "untranslatable:"; the check reports that as a broken
correspondence.  It never guesses.

usage: cachekey.py [--repo DIR] [--out FILE | --stdout]
"""
import ast
import os
import sys


class Untranslatable(Exception):
    pass


def bad(node, why):
    line = getattr(node, "lineno", "?")
    raise Untranslatable("untranslatable: interface.py:%s: %s" % (line, why))


# --------------------------------------------------------------------------------------
# small AST helpers
def is_name(n, name=None):
    return isinstance(n, ast.Name) and (name is None or n.id == name)


def body_wo_doc(fn):
    b = list(fn.body)
    if b and isinstance(b[0], ast.Expr) and isinstance(b[0].value, ast.Constant) and isinstance(b[0].value.value, str):
        b = b[1:]
    return b


def params_of(fn):
    a = fn.args
    if a.posonlyargs or a.kwonlyargs and fn.name not in ("einsum", "einsum_expression", "einsum_tree"):
        bad(fn, "unexpected parameter kinds in %s" % fn.name)
    names = [x.arg for x in a.args]
    return names, (a.vararg.arg if a.vararg else None), (a.kwarg.arg if a.kwarg else None)


def simple_call(n, fname=None):
    """Call of a plain name with only Name positional args, Name/Constant keyword values and at most one **Name"""
    if not (isinstance(n, ast.Call) and isinstance(n.func, ast.Name)):
        return None
    if fname is not None and n.func.id != fname:
        return None
    return n


def call_arg_names(call, what):
    """-> (positional names, {kw: name}, starstar name or None); anything computed is refused"""
    pos = []
    for a in call.args:
        if not is_name(a):
            bad(a, "computed positional argument in call to %s" % what)
        pos.append(a.id)
    kws = {}
    star = None
    for k in call.keywords:
        if k.arg is None:
            if not is_name(k.value) or star is not None:
                bad(call, "unrecognised ** argument in call to %s" % what)
            star = k.value.id
        else:
            if is_name(k.value):
                kws[k.arg] = k.value.id
            else:
                bad(k.value, "computed keyword argument %s= in call to %s" % (k.arg, what))
    return pos, kws, star


# --------------------------------------------------------------------------------------
# hash_contraction
VIEWS = {"VId", "VItemsTuple", "VFrozenItems", "VPrepareOpt"}


def view_of(expr, env):
    """expr is NAME | tuple(NAME.items()) | frozenset(NAME.items()) | hash_prepare_optimize(NAME);
    returns (param, view) or None"""
    if is_name(expr):
        if expr.id not in env:
            bad(expr, "name %r is not a parameter of hash_contraction or a recognised local" % expr.id)
        return env[expr.id]
    if isinstance(expr, ast.Call) and isinstance(expr.func, ast.Name) and not expr.keywords and len(expr.args) == 1:
        f, a = expr.func.id, expr.args[0]
        if f in ("tuple", "frozenset", "list", "sorted", "set") and isinstance(a, ast.Call) \
                and isinstance(a.func, ast.Attribute) and a.func.attr in ("values", "keys") and is_name(a.func.value):
            lost = ("order-dependent, index binding dropped: two dicts listing the same sizes in the same "
                    "position for different indices get one key" if a.func.attr == "values"
                    else "the sizes are dropped: two dicts with the same indices and different sizes get one key")
            bad(expr, "%s(%s.%s()): %s (the key must contain the (index, size) pairs: tuple(%s.items()))" % (
                f, a.func.value.id, a.func.attr, lost, a.func.value.id))
        if f in ("tuple", "frozenset", "list", "sorted", "set", "len") and is_name(a) and a.id in env \
                and env[a.id][0] in ("size_dict", "kwargs"):
            bad(expr, "%s(%s): only the keys (or their number) of the dict enter the key, the values are dropped" % (
                f, a.id))
        if f in ("tuple", "frozenset"):
            if (isinstance(a, ast.Call) and isinstance(a.func, ast.Attribute) and a.func.attr == "items"
                    and not a.args and not a.keywords and is_name(a.func.value)):
                base = a.func.value.id
                if base not in env or env[base][1] != "VId":
                    bad(expr, "items() of something that is not an untouched parameter")
                return (env[base][0], "VItemsTuple" if f == "tuple" else "VFrozenItems")
            return None
        if f == "hash_prepare_optimize" and is_name(a):
            if a.id not in env or env[a.id][1] != "VId":
                bad(expr, "hash_prepare_optimize of something that is not an untouched parameter")
            return (env[a.id][0], "VPrepareOpt")
    return None


def key_expr_of(expr, env):
    """-> nested python structure ('field', p, view) | ('len', p) | ('hash', k) | ('tuple', [k...])"""
    if isinstance(expr, ast.Tuple):
        return ("tuple", [key_expr_of(e, env) for e in expr.elts])
    if isinstance(expr, ast.Call) and isinstance(expr.func, ast.Name) and not expr.keywords and len(expr.args) == 1:
        if expr.func.id == "hash":
            return ("hash", key_expr_of(expr.args[0], env))
        if expr.func.id == "len":
            a = expr.args[0]
            if not is_name(a) or a.id not in env or env[a.id][1] != "VId":
                bad(expr, "len() of something that is not an untouched parameter")
            return ("len", env[a.id][0])
    v = view_of(expr, env)
    if v is None:
        bad(expr, "unrecognised component of the cache key: %s" % ast.dump(expr)[:120])
    return ("field", v[0], v[1])


def translate_hash_contraction(fn):
    names, va, kw = params_of(fn)
    if va is not None:
        bad(fn, "hash_contraction takes *args")
    env = {p: (p, "VId") for p in names}
    if kw:
        env[kw] = (kw, "VId")
    body = body_wo_doc(fn)
    if not body or not isinstance(body[-1], ast.Return) or body[-1].value is None:
        bad(fn, "hash_contraction does not end in `return <expr>`")
    for st in body[:-1]:
        if not (isinstance(st, ast.Assign) and len(st.targets) == 1 and is_name(st.targets[0])):
            bad(st, "statement in hash_contraction is not `name = view(name)`")
        v = view_of(st.value, env)
        if v is None or is_name(st.value):
            bad(st, "right-hand side in hash_contraction is not a recognised view")
        env[st.targets[0].id] = v
    return names, kw, key_expr_of(body[-1].value, env)


# --------------------------------------------------------------------------------------
# per-class dispatch:  cls = X.__class__ ; try: fn = T[cls] ; except KeyError: if/elif chain ; return fn(...)
def parse_test(t, subject):
    if isinstance(t, ast.Call) and isinstance(t.func, ast.Name) and not t.keywords and len(t.args) == 2 \
            and is_name(t.args[0], subject):
        if t.func.id == "isinstance":
            x = t.args[1]
            if is_name(x):
                return ("isinstance", [x.id])
            if isinstance(x, ast.Tuple) and all(is_name(e) for e in x.elts):
                return ("isinstance", [e.id for e in x.elts])
        if t.func.id == "hasattr" and isinstance(t.args[1], ast.Constant) and isinstance(t.args[1].value, str):
            return ("hasattr", t.args[1].value)
    bad(t, "unrecognised dispatch test")


def parse_dispatch(fn, table, subject="optimize", result=None):
    body = body_wo_doc(fn)
    if len(body) != 3:
        bad(fn, "%s: expected `cls = ...; try/except KeyError; return`" % fn.name)
    a, tr, ret = body
    if not (isinstance(a, ast.Assign) and len(a.targets) == 1 and is_name(a.targets[0], "cls")
            and isinstance(a.value, ast.Attribute) and a.value.attr == "__class__" and is_name(a.value.value, subject)):
        bad(a, "%s: expected `cls = %s.__class__`" % (fn.name, subject))
    if not (isinstance(tr, ast.Try) and len(tr.body) == 1 and len(tr.handlers) == 1 and not tr.orelse and not tr.finalbody
            and is_name(tr.handlers[0].type, "KeyError")):
        bad(tr, "%s: expected try/except KeyError" % fn.name)
    lk = tr.body[0]
    if not (isinstance(lk, ast.Assign) and len(lk.targets) == 1 and is_name(lk.targets[0])
            and isinstance(lk.value, ast.Subscript) and is_name(lk.value.value, table) and is_name(lk.value.slice, "cls")):
        bad(lk, "%s: expected `fn = %s[cls]`" % (fn.name, table))
    var = lk.targets[0].id

    def store(st):
        # fn = TABLE[cls] = HANDLER
        if not (isinstance(st, ast.Assign) and len(st.targets) == 2 and is_name(st.targets[0], var)
                and isinstance(st.targets[1], ast.Subscript) and is_name(st.targets[1].value, table)
                and is_name(st.targets[1].slice, "cls") and is_name(st.value)):
            bad(st, "%s: expected `%s = %s[cls] = <handler>`" % (fn.name, var, table))
        return st.value.id

    chain = []
    h = tr.handlers[0].body
    if len(h) != 1 or not isinstance(h[0], ast.If):
        bad(tr, "%s: handler is not a single if/elif chain" % fn.name)
    cur = h[0]
    while True:
        if len(cur.body) != 1:
            bad(cur, "%s: branch with more than one statement" % fn.name)
        chain.append((parse_test(cur.test, subject), store(cur.body[0])))
        if len(cur.orelse) == 1 and isinstance(cur.orelse[0], ast.If):
            cur = cur.orelse[0]
            continue
        if len(cur.orelse) != 1:
            bad(cur, "%s: missing else branch" % fn.name)
        default = store(cur.orelse[0])
        break
    # return fn(<args>)
    if not (isinstance(ret, ast.Return) and isinstance(ret.value, ast.Call) and is_name(ret.value.func, var)):
        bad(ret, "%s: expected `return %s(...)`" % (fn.name, var))
    return chain, default


# --------------------------------------------------------------------------------------
# the caching functions
def parse_caching_function(fn, cache_table, compute, hc_params, hc_kw, key_expr):
    names, va, kw = params_of(fn)
    body = body_wo_doc(fn)
    info = {"name": fn.name, "params": names + ([kw] if kw else [])}
    # 1. normalisation
    st = body[0]
    if not (isinstance(st, ast.Assign) and len(st.targets) == 1 and isinstance(st.targets[0], ast.Tuple)
            and all(is_name(e) for e in st.targets[0].elts) and simple_call(st.value, "normalize_input")):
        bad(st, "%s: first statement is not `a, b, c, d = normalize_input(...)`" % fn.name)
    info["normalized"] = [e.id for e in st.targets[0].elts]
    npos, nkws, nstar = call_arg_names(st.value, "normalize_input")
    if nkws or nstar:
        bad(st, "%s: normalize_input called with keywords" % fn.name)
    info["normalize_args"] = npos
    rest = body[1:]
    # 2. optional `if constants is not None: return <call>`
    info["bypass"] = None
    if rest and isinstance(rest[0], ast.If) and isinstance(rest[0].test, ast.Compare) \
            and is_name(rest[0].test.left, "constants") and len(rest[0].test.ops) == 1 \
            and isinstance(rest[0].test.ops[0], ast.IsNot) and isinstance(rest[0].test.comparators[0], ast.Constant) \
            and rest[0].test.comparators[0].value is None:
        b = rest[0]
        if b.orelse or len(b.body) != 1 or not isinstance(b.body[0], ast.Return) \
                or not simple_call(b.body[0].value):
            bad(b, "%s: unrecognised constants branch" % fn.name)
        info["bypass"] = b.body[0].value.func.id
        rest = rest[1:]
    if len(rest) != 2:
        bad(fn, "%s: expected `if cache and can_hash_optimize(...): ... else: ...` then `return`" % fn.name)
    iff, ret = rest
    # 3. the cache test
    ok = (isinstance(iff, ast.If) and isinstance(iff.test, ast.BoolOp) and isinstance(iff.test.op, ast.And)
          and len(iff.test.values) == 2 and is_name(iff.test.values[0], "cache"))
    if ok:
        c = iff.test.values[1]
        ok = (isinstance(c, ast.Call) and is_name(c.func, "can_hash_optimize") and len(c.args) == 1 and not c.keywords
              and isinstance(c.args[0], ast.Attribute) and c.args[0].attr == "__class__"
              and is_name(c.args[0].value, "optimize"))
    if not ok:
        bad(iff, "%s: cache test is not `cache and can_hash_optimize(optimize.__class__)`" % fn.name)
    if not (isinstance(ret, ast.Return) and is_name(ret.value)):
        bad(ret, "%s: does not end in `return <name>`" % fn.name)
    res = ret.value.id
    computes = []
    tbl = [cache_table]          # None: discovered from the lookup statement

    def is_compute_assign(st, also_store=None):
        if not isinstance(st, ast.Assign):
            return False
        tg = st.targets
        if also_store is None:
            good = len(tg) == 1 and is_name(tg[0], res)
        else:
            good = (len(tg) == 2 and is_name(tg[0], res) and isinstance(tg[1], ast.Subscript)
                    and is_name(tg[1].value, tbl[0]) and is_name(tg[1].slice, also_store))
        if good and simple_call(st.value, compute):
            computes.append(st.value)
            return True
        return False

    def parse_keyed(stmts):
        # key = hash_contraction(...) ; try: res = CACHE[key] / except KeyError: res = CACHE[key] = compute(...)
        if len(stmts) != 2:
            bad(iff, "%s: cached branch is not `key = ...; try/except KeyError`" % fn.name)
        k, tr = stmts
        if not (isinstance(k, ast.Assign) and len(k.targets) == 1 and is_name(k.targets[0])
                and simple_call(k.value, "hash_contraction")):
            bad(k, "%s: expected `key = hash_contraction(...)`" % fn.name)
        keyvar = k.targets[0].id
        if not (isinstance(tr, ast.Try) and len(tr.body) == 1 and len(tr.handlers) == 1 and not tr.orelse
                and not tr.finalbody and is_name(tr.handlers[0].type, "KeyError")):
            bad(tr, "%s: expected try/except KeyError around the lookup" % fn.name)
        lk = tr.body[0]
        if tbl[0] is None and isinstance(lk, ast.Assign) and isinstance(lk.value, ast.Subscript) \
                and is_name(lk.value.value):
            tbl[0] = lk.value.value.id
        if not (isinstance(lk, ast.Assign) and len(lk.targets) == 1 and is_name(lk.targets[0], res)
                and isinstance(lk.value, ast.Subscript) and is_name(lk.value.value, tbl[0])
                and is_name(lk.value.slice, keyvar)):
            bad(lk, "%s: expected `%s = <module-level dict>[%s]`" % (fn.name, res, keyvar))
        hb = tr.handlers[0].body
        if len(hb) != 1 or not is_compute_assign(hb[0], also_store=keyvar):
            bad(tr, "%s: miss branch is not `%s = %s[%s] = %s(...)`" % (fn.name, res, tbl[0], keyvar, compute))
        return k.value

    fallback = False
    if len(iff.body) == 1 and isinstance(iff.body[0], ast.Try) and len(iff.body[0].handlers) == 1 \
            and is_name(iff.body[0].handlers[0].type, "TypeError"):
        outer = iff.body[0]
        if outer.orelse or outer.finalbody:
            bad(outer, "%s: try/except TypeError with else/finally" % fn.name)
        keycall = parse_keyed(outer.body)
        hb = list(outer.handlers[0].body)
        # allowed: import warnings ; warnings.warn(...) ; res = compute(...)
        for st in hb[:-1]:
            if isinstance(st, ast.Import):
                continue
            if isinstance(st, ast.Expr) and isinstance(st.value, ast.Call) and isinstance(st.value.func, ast.Attribute) \
                    and st.value.func.attr == "warn":
                continue
            bad(st, "%s: unrecognised statement in the TypeError handler" % fn.name)
        if not hb or not is_compute_assign(hb[-1]):
            bad(outer, "%s: TypeError handler does not end in `%s = %s(...)`" % (fn.name, res, compute))
        fallback = True
    else:
        keycall = parse_keyed(iff.body)
    if len(iff.orelse) != 1 or not is_compute_assign(iff.orelse[0]):
        bad(iff, "%s: uncached branch is not `%s = %s(...)`" % (fn.name, res, compute))
    d0 = ast.dump(computes[0])
    for c in computes[1:]:
        if ast.dump(c) != d0:
            bad(c, "%s: the cached and the uncached branch call %s with different arguments" % (fn.name, compute))
    # key arguments -> hash_contraction parameters
    kpos, kkws, kstar = call_arg_names(keycall, "hash_contraction")
    if len(kpos) > len(hc_params):
        bad(keycall, "too many positional arguments to hash_contraction")
    binding = dict(zip(hc_params, kpos))
    for k, v in kkws.items():
        if k in hc_params and k not in binding:
            binding[k] = v
        else:
            bad(keycall, "keyword %s= of hash_contraction lands in **%s: not a plain forwarding" % (k, hc_kw))
    for p in hc_params:
        if p not in binding:
            bad(keycall, "hash_contraction parameter %s not supplied" % p)
    if kstar is not None:
        if hc_kw is None:
            bad(keycall, "** passed to hash_contraction which takes no **kwargs")
        binding[hc_kw] = kstar
    else:
        binding[hc_kw] = None      # empty kwargs: a constant

    def inst(k):
        if k[0] == "field":
            b = binding.get(k[1])
            return ("field", b if b is not None else "%empty", k[2])
        if k[0] == "len":
            if binding.get(k[1]) is None:
                bad(keycall, "len of an absent argument")
            return ("len", binding[k[1]])
        if k[0] == "hash":
            return ("hash", inst(k[1]))
        return ("tuple", [inst(x) for x in k[1]])

    info["key_expr"] = inst(key_expr)
    info["key_fields"] = []

    def collect(k):
        if k[0] == "field":
            if k[1] != "%empty" and k[1] not in info["key_fields"]:
                info["key_fields"].append(k[1])
        elif k[0] == "hash":
            collect(k[1])
        elif k[0] == "tuple":
            for x in k[1]:
                collect(x)
    collect(info["key_expr"])
    upos, ukws, ustar = call_arg_names(computes[0], compute)
    used = []
    for nme in upos + list(ukws.values()) + ([ustar] if ustar else []):
        if nme not in used:
            used.append(nme)
    info["used_fields"] = used
    info["compute_kw"] = ukws
    info["fallback"] = fallback
    info["compute"] = compute
    info["table"] = tbl[0]
    # every name handed to the key or the computation must be a normalised local or a parameter
    # that is not re-bound in between (the statement shapes above leave no room for a re-binding)
    for nme in used + info["key_fields"]:
        if nme not in info["normalized"] and nme not in info["params"]:
            bad(fn, "%s: %r is neither a parameter nor a result of normalize_input" % (fn.name, nme))
    return info


def parse_can_hash(fn):
    """`if issubclass(cls, (A, B, ...)): return True; return False`  or  `return issubclass(cls, (A, B, ...))`
    -> the accepted class names (whether each of them is a VALUE in the key is decided in Coq)"""
    body = body_wo_doc(fn)
    t = None
    if (len(body) == 2 and isinstance(body[0], ast.If) and not body[0].orelse and len(body[0].body) == 1
            and isinstance(body[0].body[0], ast.Return) and isinstance(body[0].body[0].value, ast.Constant)
            and body[0].body[0].value.value is True and isinstance(body[1], ast.Return)
            and isinstance(body[1].value, ast.Constant) and body[1].value.value is False):
        t = body[0].test
    elif len(body) == 1 and isinstance(body[0], ast.Return):
        t = body[0].value
    ok = (t is not None and isinstance(t, ast.Call) and is_name(t.func, "issubclass") and len(t.args) == 2
          and not t.keywords and is_name(t.args[0], "cls")
          and ((isinstance(t.args[1], ast.Tuple) and all(is_name(e) for e in t.args[1].elts)) or is_name(t.args[1])))
    if not ok:
        bad(fn, "can_hash_optimize is not `issubclass(cls, (A, B, ...))` (returned directly or through if/return True/False)")
    x = t.args[1]
    return [e.id for e in x.elts] if isinstance(x, ast.Tuple) else [x.id]


# --------------------------------------------------------------------------------------
def coq_str(s):
    if '"' in s or "\\" in s or any(ord(ch) > 126 or ord(ch) < 32 for ch in s):
        raise Untranslatable("untranslatable: identifier %r cannot be written as a Coq string" % s)
    return '"%s"' % s


def coq_kexpr(k):
    if k[0] == "field":
        return "KField %s %s" % (coq_str(k[1]), k[2])
    if k[0] == "len":
        return "KLen %s" % coq_str(k[1])
    if k[0] == "hash":
        return "KHash (%s)" % coq_kexpr(k[1])
    return "KTuple [%s]" % "; ".join(coq_kexpr(x) for x in k[1])


def coq_strlist(l):
    return "[%s]" % "; ".join(coq_str(x) for x in l)


def coq_chain(chain):
    items = []
    for (kind, arg), h in chain:
        if kind == "isinstance":
            items.append("(TIsInstance %s, %s)" % (coq_strlist(arg), coq_str(h)))
        else:
            items.append("(THasAttr %s, %s)" % (coq_str(arg), coq_str(h)))
    return "[%s]" % "; ".join(items)


# --------------------------------------------------------------------------------------
# contract.py: the cached expression object.  `Contractor.__call__` must not write to the object (or to
# anything that outlives the call): a cached expression is shared by every later call with the same key.
MUTATORS = {"append", "extend", "insert", "pop", "remove", "clear", "update", "setdefault", "add", "discard",
            "popitem", "sort", "reverse", "__setitem__", "__delitem__", "__setattr__", "appendleft"}


def contractor_effects(src):
    """-> (slots, attributes read by __call__, writes performed by __call__ as readable strings).
    A write is: an assignment / augmented assignment / del whose target is self.X, self.X[...], an alias
    of self.X subscripted, Contractor.X / type(self).X / self.__class__.X; a call of a mutating method on
    self.X or on an alias of it; setattr/delattr(self, ...); a global / nonlocal statement."""
    try:
        mod = ast.parse(src)
    except SyntaxError as e:
        raise Untranslatable("untranslatable: contract.py does not parse: %s" % e)
    cls = [n for n in mod.body if isinstance(n, ast.ClassDef) and n.name == "Contractor"]
    if len(cls) != 1:
        raise Untranslatable("untranslatable: contract.py: class Contractor not found exactly once")
    cls = cls[0]
    slots = None
    for st in cls.body:
        if isinstance(st, ast.Assign) and len(st.targets) == 1 and is_name(st.targets[0], "__slots__"):
            if not (isinstance(st.value, (ast.Tuple, ast.List))
                    and all(isinstance(e, ast.Constant) and isinstance(e.value, str) for e in st.value.elts)):
                bad(st, "Contractor.__slots__ is not a literal tuple of strings")
            slots = [e.value for e in st.value.elts]
        elif isinstance(st, ast.Assign) or isinstance(st, ast.AnnAssign):
            bad(st, "Contractor has a class-level attribute besides __slots__ (shared mutable state?)")
    if slots is None:
        raise Untranslatable("untranslatable: contract.py: Contractor.__slots__ not found")
    calls = [n for n in cls.body if isinstance(n, ast.FunctionDef) and n.name == "__call__"]
    if len(calls) != 1 or not calls[0].args.args or calls[0].args.args[0].arg != "self":
        raise Untranslatable("untranslatable: contract.py: Contractor.__call__(self, ...) not found exactly once")
    fn = calls[0]
    if fn.decorator_list:
        bad(fn, "Contractor.__call__ is decorated")

    def self_attr(n):
        """n is self.X (possibly under subscripts) -> X, else None"""
        while isinstance(n, ast.Subscript):
            n = n.value
        if isinstance(n, ast.Attribute) and is_name(n.value, "self"):
            return n.attr
        return None

    def class_attr(n):
        while isinstance(n, ast.Subscript):
            n = n.value
        if isinstance(n, ast.Attribute):
            v = n.value
            if is_name(v, "Contractor"):
                return n.attr
            if isinstance(v, ast.Attribute) and v.attr == "__class__" and is_name(v.value, "self"):
                return n.attr
            if isinstance(v, ast.Call) and is_name(v.func, "type") and len(v.args) == 1 and is_name(v.args[0], "self"):
                return n.attr
        return None

    aliases = {}
    for n in ast.walk(fn):
        if isinstance(n, ast.Assign) and isinstance(n.value, ast.Attribute) and is_name(n.value.value, "self"):
            for t in n.targets:
                if is_name(t):
                    aliases[t.id] = n.value.attr
    reads, writes = [], []

    def wr(what, node):
        writes.append("%s (contract.py:%d)" % (what, node.lineno))

    def target(t, node):
        if isinstance(t, (ast.Tuple, ast.List)):
            for e in t.elts:
                target(e, node)
            return
        if isinstance(t, ast.Starred):
            return target(t.value, node)
        a = self_attr(t)
        if a is not None:
            return wr("self.%s" % a, node)
        c = class_attr(t)
        if c is not None:
            return wr("Contractor.%s" % c, node)
        if isinstance(t, ast.Subscript):
            b = t
            while isinstance(b, ast.Subscript):
                b = b.value
            if is_name(b) and b.id in aliases:
                wr("self.%s (through the alias %s)" % (aliases[b.id], b.id), node)

    for n in ast.walk(fn):
        if isinstance(n, ast.Assign):
            for t in n.targets:
                target(t, n)
        elif isinstance(n, (ast.AugAssign, ast.AnnAssign)):
            target(n.target, n)
        elif isinstance(n, ast.Delete):
            for t in n.targets:
                target(t, n)
        elif isinstance(n, ast.NamedExpr):
            target(n.target, n)
        elif isinstance(n, (ast.Global, ast.Nonlocal)):
            wr("%s %s" % ("global" if isinstance(n, ast.Global) else "nonlocal", ", ".join(n.names)), n)
        elif isinstance(n, ast.Call):
            f = n.func
            if isinstance(f, ast.Attribute) and f.attr in MUTATORS:
                a = self_attr(f.value)
                c = class_attr(f.value)
                base = f.value
                while isinstance(base, ast.Subscript):
                    base = base.value
                if a is not None:
                    wr("self.%s.%s(...)" % (a, f.attr), n)
                elif c is not None:
                    wr("Contractor.%s.%s(...)" % (c, f.attr), n)
                elif is_name(base) and base.id in aliases:
                    wr("self.%s.%s(...) (through the alias %s)" % (aliases[base.id], f.attr, base.id), n)
            if is_name(f) and f.id in ("setattr", "delattr") and n.args and is_name(n.args[0], "self"):
                wr("%s(self, ...)" % f.id, n)
        elif isinstance(n, ast.Attribute) and is_name(n.value, "self") and isinstance(n.ctx, ast.Load):
            if n.attr not in reads:
                reads.append(n.attr)
    for a in reads:
        if a not in slots and a != "__class__":
            bad(fn, "Contractor.__call__ reads self.%s which is not a slot" % a)
    return slots, reads, writes


def translate(src, contract_src=None):
    try:
        mod = ast.parse(src)
    except SyntaxError as e:
        raise Untranslatable("untranslatable: interface.py does not parse: %s" % e)
    fns = {}
    for st in mod.body:
        if isinstance(st, ast.FunctionDef):
            if st.name in fns:
                raise Untranslatable("untranslatable: %s defined twice" % st.name)
            fns[st.name] = st
    # module-level dicts: NAME = {} ; a name bound twice (or to anything else) is not a table
    tables = {}
    rebound = set()
    for st in mod.body:
        if isinstance(st, ast.Assign):
            for tg in st.targets:
                if is_name(tg):
                    if tg.id in tables or tg.id in rebound:
                        rebound.add(tg.id)
                        tables.pop(tg.id, None)
                    elif len(st.targets) == 1 and isinstance(st.value, ast.Dict) and not st.value.keys:
                        tables[tg.id] = True
                    else:
                        rebound.add(tg.id)
    for nm in ("_find_path_handlers", "_find_tree_handlers", "_HASH_OPTIMIZE_PREPARERS"):
        if nm not in tables:
            raise Untranslatable("untranslatable: module-level dict %s is not created once as an empty dict" % nm)
    need = ["hash_contraction", "hash_prepare_optimize", "can_hash_optimize", "identity", "find_path", "find_tree",
            "array_contract_path", "array_contract_expression", "_build_expression"]
    for n in need:
        if n not in fns:
            raise Untranslatable("untranslatable: function %s not found" % n)
    # identity
    ib = body_wo_doc(fns["identity"])
    if not (len(ib) == 1 and isinstance(ib[0], ast.Return) and is_name(ib[0].value, fns["identity"].args.args[0].arg)):
        bad(fns["identity"], "identity is not `return x`")
    prep_chain, prep_default = parse_dispatch(fns["hash_prepare_optimize"], "_HASH_OPTIMIZE_PREPARERS")
    if prep_chain != [(("isinstance", ["list"]), "tuple")] or prep_default != "identity":
        bad(fns["hash_prepare_optimize"], "hash_prepare_optimize is not `tuple` for lists and `identity` otherwise "
            "(the VPrepareOpt view of the model would be wrong)")
    hc_params, hc_kw, key_expr = translate_hash_contraction(fns["hash_contraction"])
    can_hash = parse_can_hash(fns["can_hash_optimize"])
    fp_chain, fp_default = parse_dispatch(fns["find_path"], "_find_path_handlers")
    ft_chain, ft_default = parse_dispatch(fns["find_tree"], "_find_tree_handlers")
    # which dict each caching function reads and writes is DISCOVERED, not assumed; that the two are
    # different objects is then decided inside Coq (C13_caches_are_separate) on the emitted names
    pinfo = parse_caching_function(fns["array_contract_path"], None, "find_path", hc_params, hc_kw, key_expr)
    einfo = parse_caching_function(fns["array_contract_expression"], None, "_build_expression",
                                   hc_params, hc_kw, key_expr)
    for inf in (pinfo, einfo):
        if inf["table"] not in tables:
            bad(fns[inf["name"]], "%s: cache %r is not a module-level name bound exactly once to an empty dict "
                "(an alias of another dict?)" % (inf["name"], inf["table"]))
    users = {}
    for tname, owner in ((pinfo["table"], "array_contract_path"), (einfo["table"], "array_contract_expression"),
                         ("_find_path_handlers", "find_path"), ("_find_tree_handlers", "find_tree"),
                         ("_HASH_OPTIMIZE_PREPARERS", "hash_prepare_optimize")):
        users.setdefault(tname, []).append(owner)
    # nobody else may touch the tables: any mention outside the using functions (an alias, a write, a
    # clear) is refused, except the creating assignment itself
    for node in ast.walk(mod):
        if is_name(node) and node.id in users and not isinstance(node.ctx, ast.Store):
            if not any(fns[o].lineno <= node.lineno <= fns[o].end_lineno for o in users[node.id]):
                bad(node, "%s is used outside %s" % (node.id, " / ".join(users[node.id])))
    bnames, bva, bkw = params_of(fns["_build_expression"])
    if bva or bkw:
        bad(fns["_build_expression"], "_build_expression takes * or ** arguments")
    info = {"hash_contraction_params": hc_params, "hash_contraction_kwargs": hc_kw, "key_expr": key_expr,
            "can_hash_classes": can_hash, "find_path": (fp_chain, fp_default), "find_tree": (ft_chain, ft_default),
            "prepare": (prep_chain, prep_default), "path": pinfo, "expr": einfo, "build_params": bnames}
    out = []
    w = out.append
    w("(* GENERATED by harness/translators/cachekey.py from cotengra/interface.py -- do not edit.")
    w("   Regenerated and re-checked by every run of ./check C13. *)")
    w("From Coq Require Import String.")
    w("From Ctg Require Import Base CacheState.")
    w("Open Scope string_scope.")
    w("")
    w("(* hash_contraction(%s%s) returns, over its own parameters: *)" % (
        ", ".join(hc_params), (", **" + hc_kw) if hc_kw else ""))
    w("Definition hash_contraction_expr : kexpr :=\n  %s." % coq_kexpr(
        key_expr if True else None).replace("%empty", "%empty"))
    w("")
    for tag, inf in (("expr", einfo), ("path", pinfo)):
        w("(* %s: `%s[key]` with key = hash_contraction(...) at the call site; the cached computation is %s(...) *)" % (
            inf["name"], inf["table"], inf["compute"]))
        w("Definition %s_key_expr : kexpr :=\n  %s." % (tag, coq_kexpr(inf["key_expr"])))
        w("Definition %s_cache_table : string := %s." % (tag, coq_str(inf["table"])))
        w("Definition %s_key_fields : list string := %s." % (tag, coq_strlist(inf["key_fields"])))
        w("Definition %s_used_fields : list string := %s." % (tag, coq_strlist(inf["used_fields"])))
        w("Definition %s_typeerror_fallback : bool := %s." % (tag, "true" if inf["fallback"] else "false"))
        w("Definition %s_normalized : list string := %s." % (tag, coq_strlist(inf["normalized"])))
        w("")
    w("(* parameters of _build_expression (what **kwargs may carry) *)")
    w("Definition build_params : list string := %s." % coq_strlist(bnames))
    w("(* can_hash_optimize: issubclass(cls, (...)) *)")
    w("Definition can_hash_classes : list string := %s." % coq_strlist(can_hash))
    w("")
    w("(* per-class dispatch chains *)")
    w("Definition find_path_chain : chain := %s." % coq_chain(fp_chain))
    w("Definition find_path_default : string := %s." % coq_str(fp_default))
    w("Definition find_tree_chain : chain := %s." % coq_chain(ft_chain))
    w("Definition find_tree_default : string := %s." % coq_str(ft_default))
    w("Definition prepare_chain : chain := %s." % coq_chain(prep_chain))
    w("Definition prepare_default : string := %s." % coq_str(prep_default))
    if contract_src is not None:
        slots, reads, writes = contractor_effects(contract_src)
        info["contractor"] = {"slots": slots, "reads": reads, "writes": writes}
        w("")
        w("(* cotengra/contract.py class Contractor: the cached expression object.  What __call__ reads from")
        w("   self, and every write it performs to self.* / the class / a global (must be none: a cached")
        w("   expression is shared by all later calls with the same key) *)")
        w("Definition contractor_slots : list string := %s." % coq_strlist(slots))
        w("Definition contractor_call_reads : list string := %s." % coq_strlist(reads))
        w("Definition contractor_call_writes : list string := %s." % coq_strlist(writes))
    return "\n".join(out) + "\n", info


def main(argv):
    repo = os.environ.get("VERIF_REPO", "/repo")
    out = None
    i = 0
    while i < len(argv):
        if argv[i] == "--repo":
            repo = argv[i + 1]
            i += 2
        elif argv[i] == "--out":
            out = argv[i + 1]
            i += 2
        elif argv[i] == "--stdout":
            out = "-"
            i += 1
        else:
            print("usage: cachekey.py [--repo DIR] [--out FILE | --stdout]", file=sys.stderr)
            return 64
    if out is None:
        here = os.path.dirname(os.path.dirname(os.path.dirname(os.path.abspath(__file__))))
        out = os.path.join(here, "coq", "Gen", "CacheKey.v")
    path = os.path.join(repo, "cotengra", "interface.py")
    try:
        src = open(path, encoding="utf-8").read()
        csrc = open(os.path.join(repo, "cotengra", "contract.py"), encoding="utf-8").read()
        text, _ = translate(src, csrc)
    except Untranslatable as e:
        print(str(e))
        return 2
    except Exception as e:  # fail closed on anything unexpected
        print("untranslatable: translator error %r" % (e,))
        return 2
    if out == "-":
        sys.stdout.write(text)
    else:
        os.makedirs(os.path.dirname(out), exist_ok=True)
        old = open(out).read() if os.path.exists(out) else None
        if old != text:          # keep the timestamp when nothing changed (no needless rebuild)
            with open(out, "w") as f:
                f.write(text)
    return 0


if __name__ == "__main__":
    sys.exit(main(sys.argv[1:]))

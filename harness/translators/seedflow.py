"""seedflow.py -- fail-closed `ast` translator: cotengra source -> seed-flow graph.

Reads <repo>/cotengra/{,pathfinders/,hyperoptimizers/}*.py (never imports it) and produces

  * a graph: one node per function / method (nested defs and lambdas are inlined into
    the function that contains them), whose body is a list of events
        DrawOwn            a draw from an rng derived from the function's seed / rng
                           parameter, or from an rng the object stored at construction
        DrawGlobal         a use of the module-level `random` / `numpy.random` generator
                           (or of an rng obtained from get_rng() / Random() without argument)
        HashIter           iteration over an expression that is syntactically a set /
                           frozenset whose elements are not known to be integers
        Call callee pass   pass in {Seed, Derived, Const, NoneP, Nothing}: what the callee
                           receives in its seed/rng position
    plus informational records (opaque dynamic calls, external calls that receive the seed,
    vetted integer-set iterations);
  * the list of public seeded APIs (functions/methods with a `seed` parameter, classes
    whose __init__ has one, module-level PartitionTreeBuilder-style instances);
  * coq/Gen/SeedFlow.v (graph literal) and a JSON side file for the harness.

Fail closed: any use of a seed/rng-derived name that is not one of the recognised
forms, any unclassifiable expression in a seed position, or a get_rng whose body is not
the expected three-way dispatch, is recorded in `untranslatable`; the check reports a
non-empty list as a broken correspondence.
"""
import ast
import json
import os
import sys

SCOPE_DIRS = ["", "pathfinders", "hyperoptimizers"]
EXCLUDE_FILES = {
    "plot.py", "schematic.py", "__init__.py",
    # wrappers around executables / libraries that are absent here and outside the anchors
    "path_flowcutter.py", "path_quickbb.py", "path_igraph.py",
}
SEED_NAMES = ("seed", "rng")
BUILTIN_METHODS = {
    "pop", "add", "get", "update", "copy", "items", "keys", "values", "append", "extend", "remove",
    "clear", "sort", "index", "count", "discard", "union", "intersection", "difference",
    "symmetric_difference", "setdefault", "insert", "join", "format", "split", "replace", "find",
    "startswith", "endswith", "isdisjoint", "issubset", "issuperset", "popitem", "reverse", "result",
    "submit", "close", "strip", "lower", "upper", "encode", "decode", "fromkeys", "most_common",
    "popleft", "appendleft", "total", "reshape", "astype", "sum", "tolist", "item", "view", "map",
    "cycle", "set_description", "write", "read", "group", "match", "move_to_end",
}
BUILTIN_NAMES = set(dir(__import__("builtins")))
RANDOM_CTORS = {"Random", "SystemRandom"}
NP_RANDOM_CTORS = {"default_rng", "Generator", "RandomState", "SeedSequence", "PCG64", "MT19937"}

# set iterations that were reviewed by hand: (function qualname, source of the iterated
# expression) -> why the iteration order cannot depend on string hashing
_INT_NODES = "elements are integer node numbers (HyperGraph.nodes is dict[int, ...]); int hashes do not depend on PYTHONHASHSEED"
VETTED_SET_ITER = {
    ("core.ContractionTree.slice_arrays", "self.sliced_inputs"):
        "frozenset of integer input positions; the loop body writes temp_arrays[c], independent of order",
    ("hypergraph.HyperGraph.neighborhood_compress_cost", "region_edges"):
        "set of (string) edge labels, but the loop only groups them into `incidences` and the result C is a sum of "
        "integer products over the groups: permuting the iteration permutes the terms of an exact integer sum "
        "(residue: with non-integer sizes the float sum could differ in the last bit)",
    ("hypergraph.HyperGraph.neighborhood_compress_cost", "e_nodes"): _INT_NODES,
    ("hypergraph.HyperGraph.neighborhood_size", "neighborhood"): _INT_NODES + "; integer sum",
    ("hypergraph.HyperGraph.simple_distance", "region"): _INT_NODES,
    ("pathfinders.path_basic.ContractionProcessor.subgraphs", "remaining"):
        "set of the integer node numbers of ContractionProcessor.nodes",
    ("pathfinders.path_basic.ContractionProcessor.simplify_hadamard", "hadamards"):
        "set of frozensets of integer index numbers (ContractionProcessor.indmap renumbers indices): "
        "the hash of a frozenset of ints does not depend on PYTHONHASHSEED",
}

PASS_SEED, PASS_DERIVED, PASS_CONST, PASS_NONE, PASS_NOTHING = "PSeed", "PDerived", "PConst", "PNone", "PNothing"


def src(node):
    try:
        return ast.unparse(node)
    except Exception:
        return "<?>"


DECORATOR_WHITELIST = {"staticmethod", "classmethod", "property", "wraps", "abstractmethod"}
COMPLETION_ORDER_CALLS = {"as_completed", "gather", "imap_unordered", "wait"}


class Fn:
    def __init__(self, qual, node, mod, cls=None):
        self.qual = qual
        self.node = node
        self.mod = mod
        self.cls = cls
        a = node.args
        self.params = [p.arg for p in a.posonlyargs + a.args]
        self.kwonly = [p.arg for p in a.kwonlyargs]
        self.varkw = a.kwarg.arg if a.kwarg else None
        self.vararg = a.vararg.arg if a.vararg else None
        self.seed_param = None
        for s in SEED_NAMES:
            if s in self.params or s in self.kwonly:
                self.seed_param = s
                break
        self.seed_default = "required"
        if self.seed_param:
            pos = a.posonlyargs + a.args
            defaults = [None] * (len(pos) - len(a.defaults)) + list(a.defaults)
            for p, d in zip(pos, defaults):
                if p.arg == self.seed_param and d is not None:
                    self.seed_default = d
            for p, d in zip(a.kwonlyargs, a.kw_defaults):
                if p.arg == self.seed_param and d is not None:
                    self.seed_default = d
        self.kw_seeded = False      # forwards its own **kwargs to a seed-accepting callee
        self.events = []
        self.info = []
        self.lineno = node.lineno

    @property
    def accepts_seed(self):
        return self.seed_param is not None or self.kw_seeded


class Cls:
    def __init__(self, qual, node, mod):
        self.qual = qual
        self.node = node
        self.mod = mod
        self.methods = {}
        self.aliases = {}      # name -> ("method", target) | ("func", Fn)
        self.bases = []
        self.self_taint = {}   # attr -> kind
        self.self_sets = set()  # attrs assigned a set
        self.self_dyn = {}     # attr -> [Fn] candidates for dynamically stored callables
        self.ctor_attr = {}    # attr -> __init__ parameter stored verbatim


class Mod:
    def __init__(self, name, path, tree):
        self.name = name
        self.path = path
        self.tree = tree
        self.imports = {}      # local -> ("mod", modname) | ("name", modname, name) | ("ext", dotted)
        self.funcs = {}
        self.classes = {}
        self.instances = {}    # name -> (Cls qual, [arg source names])


class Translator:
    def __init__(self, repo):
        self.repo = repo
        self.root = os.path.join(repo, "cotengra")
        self.mods = {}
        self.fns = {}          # qual -> Fn
        self.untranslatable = []
        self.notes = []
        self.spec_nodes = {}   # specialised instance nodes

    # ------------------------------------------------------------------ loading
    def bad(self, where, what):
        self.untranslatable.append("%s: %s" % (where, what))

    def load(self):
        for d in SCOPE_DIRS:
            dd = os.path.join(self.root, d)
            if not os.path.isdir(dd):
                self.bad(dd, "directory missing")
                continue
            for f in sorted(os.listdir(dd)):
                if not f.endswith(".py") or f in EXCLUDE_FILES:
                    continue
                path = os.path.join(dd, f)
                name = (d + "." if d else "") + f[:-3]
                try:
                    tree = ast.parse(open(path).read(), filename=path)
                except SyntaxError as e:
                    self.bad(path, "syntax error %s" % e)
                    continue
                for n in ast.walk(tree):
                    for c in ast.iter_child_nodes(n):
                        c.parent = n
                self.mods[name] = Mod(name, path, tree)
        for m in self.mods.values():
            self.collect(m)
        for m in self.mods.values():
            for c in m.classes.values():
                self.link_class(c)

    def rel_module(self, m, level, module):
        parts = m.name.split(".")[:-1]
        if level > 1:
            parts = parts[: len(parts) - (level - 1)]
        if module:
            parts = parts + module.split(".")
        return ".".join(parts)

    def collect(self, m):
        for st in m.tree.body:
            self.collect_stmt(m, st)

    def collect_stmt(self, m, st):
        if isinstance(st, (ast.If, ast.Try)):
            bodies = [st.body, st.orelse] + ([h.body for h in st.handlers] + [st.finalbody] if isinstance(st, ast.Try) else [])
            for b in bodies:
                for s in b:
                    self.collect_stmt(m, s)
            return
        if isinstance(st, ast.ImportFrom):
            if st.level >= 1:
                target = self.rel_module(m, st.level, st.module)
                for a in st.names:
                    loc = a.asname or a.name
                    if st.module is None:
                        m.imports[loc] = ("mod", (target + "." if target else "") + a.name)
                    else:
                        m.imports[loc] = ("name", target, a.name)
            else:
                for a in st.names:
                    m.imports[a.asname or a.name] = ("ext", st.module + "." + a.name)
        elif isinstance(st, ast.Import):
            for a in st.names:
                m.imports[a.asname or a.name.split(".")[0]] = ("ext", a.name if a.asname else a.name.split(".")[0])
        elif isinstance(st, (ast.FunctionDef, ast.AsyncFunctionDef)):
            q = m.name + "." + st.name
            if st.name not in m.funcs:      # first definition wins (NODE_TYPE conditional defs are equivalent)
                fn = Fn(q, st, m)
                m.funcs[st.name] = fn
                self.fns[q] = fn
        elif isinstance(st, ast.ClassDef):
            c = Cls(m.name + "." + st.name, st, m)
            m.classes[st.name] = c
            for b in st.body:
                if isinstance(b, (ast.FunctionDef, ast.AsyncFunctionDef)):
                    fn = Fn(c.qual + "." + b.name, b, m, c)
                    c.methods[b.name] = fn
                    self.fns[fn.qual] = fn
                elif isinstance(b, ast.Assign) and len(b.targets) == 1 and isinstance(b.targets[0], ast.Name):
                    tname = b.targets[0].id
                    v = b.value
                    if (isinstance(v, ast.Call) and src(v.func) in ("functools.partialmethod", "partialmethod")
                            and v.args and isinstance(v.args[0], ast.Name)):
                        c.aliases[tname] = ("method", v.args[0].id)
                    elif isinstance(v, ast.Name):
                        c.aliases[tname] = ("name", v.id)
        elif isinstance(st, ast.Assign) and len(st.targets) == 1 and isinstance(st.targets[0], ast.Name):
            v = st.value
            if isinstance(v, ast.Call) and isinstance(v.func, ast.Name) and all(isinstance(a, ast.Name) for a in v.args) \
                    and v.args and not v.keywords:
                m.instances[st.targets[0].id] = (v.func.id, [a.id for a in v.args])

    def resolve_name(self, m, name, depth=0):
        """-> ("fn", Fn) | ("cls", Cls) | ("mod", Mod) | ("ext", dotted) | ("inst", (Cls, args, qual)) | None"""
        if depth > 5:
            return None
        if name in m.funcs:
            return ("fn", m.funcs[name])
        if name in m.classes:
            return ("cls", m.classes[name])
        if name in m.instances:
            cname, args = m.instances[name]
            r = self.resolve_name(m, cname, depth + 1)
            if r and r[0] == "cls":
                return ("inst", (r[1], [self.resolve_name(m, a, depth + 1) for a in args], m.name + "." + name))
        if name in m.imports:
            imp = m.imports[name]
            if imp[0] == "ext":
                return ("ext", imp[1])
            if imp[0] == "mod":
                return ("mod", self.mods[imp[1]]) if imp[1] in self.mods else ("ext", "cotengra." + imp[1])
            if imp[0] == "name":
                if imp[1] in self.mods:
                    return self.resolve_name(self.mods[imp[1]], imp[2], depth + 1)
                if (imp[1] + "." + imp[2]).strip(".") in self.mods:
                    return ("mod", self.mods[(imp[1] + "." + imp[2]).strip(".")])
                return ("ext", "cotengra." + imp[1] + "." + imp[2])
        return None

    def link_class(self, c):
        for b in c.node.bases:
            if isinstance(b, ast.Name):
                r = self.resolve_name(c.mod, b.id)
                if r and r[0] == "cls":
                    c.bases.append(r[1])

    def hierarchy(self, c):
        seen = []

        def up(x):
            if x not in seen:
                seen.append(x)
                for b in x.bases:
                    up(b)
        up(c)
        for m in self.mods.values():
            for d in m.classes.values():
                anc = []

                def up2(x):
                    if x not in anc:
                        anc.append(x)
                        for b in x.bases:
                            up2(b)
                up2(d)
                if c in anc and d not in seen:
                    seen.append(d)
        return seen

    def lookup_method(self, c, name, hier=True):
        """all Fn that `obj.name` may denote for obj of class c (or a relative)"""
        out = []
        for k in (self.hierarchy(c) if hier else [c]):
            seen = set()
            nm = name
            while nm in k.aliases and nm not in seen and nm not in k.methods:
                seen.add(nm)
                kind, tgt = k.aliases[nm]
                if kind == "method":
                    nm = tgt
                else:
                    r = self.resolve_name(k.mod, tgt)
                    if r and r[0] == "fn":
                        if r[1] not in out:
                            out.append(r[1])
                    nm = None
                    break
            if nm and nm in k.methods and k.methods[nm] not in out:
                out.append(k.methods[nm])
        return out

    # ------------------------------------------------------------------ get_rng shape
    def check_get_rng(self):
        u = self.mods.get("utils")
        fn = u.funcs.get("get_rng") if u else None
        if fn is None:
            self.bad("utils.get_rng", "not found")
            return
        body = [s for s in fn.node.body if not (isinstance(s, ast.Expr) and isinstance(s.value, ast.Constant))]
        want = ("if seed is None:\n    return random\nelif isinstance(seed, random.Random) or seed is random:\n"
                "    return seed\nelse:\n    return random.Random(seed)")
        got = "\n".join(src(s) for s in body)
        if got != want or fn.params != ["seed"]:
            self.bad("utils.get_rng", "body is not the expected dispatch (None -> global generator, "
                     "Random instance -> itself, otherwise random.Random(seed)); got: %s" % got)
        g = u.classes.get("GumbelBatchedGenerator") if u else None
        if g is None:
            self.bad("utils.GumbelBatchedGenerator", "not found")

    # ------------------------------------------------------------------ analysis of one function
    def class_taints(self, c):
        """attributes of self that hold an rng / seeded object, from __init__ (own or inherited)"""
        for k in self.hierarchy(c):
            init = k.methods.get("__init__")
            if init is None:
                continue
            if init.seed_param:
                taint = {init.seed_param: "seed"}
                changed = True
                while changed:
                    changed = False
                    for st in ast.walk(init.node):
                        if isinstance(st, ast.Assign) and len(st.targets) == 1:
                            t = st.targets[0]
                            key = None
                            if isinstance(t, ast.Name):
                                key = t.id
                            elif isinstance(t, ast.Attribute) and isinstance(t.value, ast.Name) and t.value.id == "self":
                                key = "self." + t.attr
                            if key is None:
                                continue
                            k2 = self.kind_of(st.value, taint, init)
                            if k2 and taint.get(key) != k2 and key != init.seed_param:
                                taint[key] = k2
                                changed = True
                for key, kd in taint.items():
                    if key.startswith("self.") and not kd.startswith(("uobj:", "cobj:")):
                        k.self_taint[key[5:]] = kd
            # dynamically stored callables / constructor parameters / sets
            for st in ast.walk(init.node):
                if isinstance(st, ast.Assign) and len(st.targets) == 1:
                    t = st.targets[0]
                    if isinstance(t, ast.Attribute) and isinstance(t.value, ast.Name) and t.value.id == "self":
                        v = st.value
                        if isinstance(v, ast.Name) and v.id in init.params:
                            k.ctor_attr[t.attr] = v.id
                        if isinstance(v, ast.Call) and isinstance(v.func, ast.Name):
                            r = self.resolve_name(k.mod, v.func.id)
                            if r and r[0] == "fn":
                                cands = []
                                for rt in ast.walk(r[1].node):
                                    if isinstance(rt, ast.Return) and isinstance(rt.value, ast.Name):
                                        # a name bound by a local import of an absent accelerator is external
                                        rr = self.resolve_name(r[1].mod, rt.value.id)
                                        if rr and rr[0] == "fn" and rr[1] not in cands:
                                            cands.append(rr[1])
                                if cands:
                                    k.self_dyn[t.attr] = cands
        # inherit
        for k in self.hierarchy(c):
            for b in k.bases:
                for a, kd in b.self_taint.items():
                    k.self_taint.setdefault(a, kd)
                for a, v in b.self_dyn.items():
                    k.self_dyn.setdefault(a, v)
                for a, v in b.ctor_attr.items():
                    k.ctor_attr.setdefault(a, v)

    def is_self_attr(self, e):
        return isinstance(e, ast.Attribute) and isinstance(e.value, ast.Name) and e.value.id == "self"

    def ext_of(self, fn, e):
        """dotted external name of expression e (e.g. random.random, numpy.random.seed) or None"""
        parts = []
        while isinstance(e, ast.Attribute):
            parts.append(e.attr)
            e = e.value
        if not isinstance(e, ast.Name):
            return None
        if e.id in self.local_names(fn):
            # a local import shadows? handle `import x` inside functions
            li = self.local_imports(fn).get(e.id)
            if li:
                return ".".join([li] + parts[::-1])
            return None
        r = self.resolve_name(fn.mod, e.id)
        if r and r[0] == "ext":
            return ".".join([r[1]] + parts[::-1])
        return None

    def local_imports(self, fn):
        if not hasattr(fn, "_limp"):
            d = {}
            for n in ast.walk(fn.node):
                if isinstance(n, ast.Import):
                    for a in n.names:
                        d[a.asname or a.name.split(".")[0]] = a.name if a.asname else a.name.split(".")[0]
                elif isinstance(n, ast.ImportFrom) and n.level == 0:
                    for a in n.names:
                        d[a.asname or a.name] = n.module + "." + a.name
            fn._limp = d
        return fn._limp

    def local_from_imports(self, fn):
        """names bound by `from .x import y` inside the function -> resolution"""
        if not hasattr(fn, "_lfimp"):
            d = {}
            for n in ast.walk(fn.node):
                if isinstance(n, ast.ImportFrom) and n.level >= 1:
                    target = self.rel_module(fn.mod, n.level, n.module)
                    for a in n.names:
                        if target in self.mods:
                            d[a.asname or a.name] = self.resolve_name(self.mods[target], a.name)
                        else:
                            d[a.asname or a.name] = ("ext", "cotengra." + target + "." + a.name)
            fn._lfimp = d
        return fn._lfimp

    def local_names(self, fn):
        if not hasattr(fn, "_lnames"):
            s = set(fn.params) | set(fn.kwonly)
            if fn.varkw:
                s.add(fn.varkw)
            if fn.vararg:
                s.add(fn.vararg)
            for n in ast.walk(fn.node):
                if isinstance(n, ast.Name) and isinstance(n.ctx, ast.Store):
                    s.add(n.id)
                elif isinstance(n, (ast.FunctionDef, ast.AsyncFunctionDef)) and n is not fn.node:
                    s.add(n.name)
                    for p in n.args.posonlyargs + n.args.args + n.args.kwonlyargs:
                        s.add(p.arg)
                elif isinstance(n, ast.Lambda):
                    for p in n.args.args:
                        s.add(p.arg)
                elif isinstance(n, (ast.Import, ast.ImportFrom)):
                    for a in n.names:
                        s.add(a.asname or a.name.split(".")[0])
                elif isinstance(n, ast.ExceptHandler) and n.name:
                    s.add(n.name)
            fn._lnames = s
        return fn._lnames

    def resolve_in_fn(self, fn, name):
        lf = self.local_from_imports(fn)
        if name in lf:
            return lf[name]
        if name in self.local_names(fn):
            return None
        return self.resolve_name(fn.mod, name)

    def is_get_rng(self, fn, f):
        if isinstance(f, ast.Name):
            r = self.resolve_in_fn(fn, f.id)
            return bool(r and r[0] == "fn" and r[1].qual == "utils.get_rng")
        return False

    def kind_of(self, e, taint, fn):
        """kind of the value of expression e w.r.t. the seed: seed | rng | grng | val | obj:<cls> | None"""
        if isinstance(e, ast.Name):
            return taint.get(e.id)
        if self.is_self_attr(e):
            k = taint.get("self." + e.attr)
            if k:
                return k
            if fn.cls is not None:
                return fn.cls.self_taint.get(e.attr)
            return None
        if isinstance(e, ast.IfExp):
            a, b = self.kind_of(e.body, taint, fn), self.kind_of(e.orelse, taint, fn)
            return a or b
        if isinstance(e, ast.Call):
            f = e.func
            arg0 = e.args[0] if e.args else None
            for kw in e.keywords:
                if kw.arg in SEED_NAMES:
                    arg0 = kw.value
            if self.is_get_rng(fn, f):
                if arg0 is None or (isinstance(arg0, ast.Constant) and arg0.value is None):
                    return "grng"
                k = self.kind_of(arg0, taint, fn)
                if k in ("seed", "rng", "val"):
                    return "rng"
                if k == "grng":
                    return "grng"
                if isinstance(arg0, ast.Constant) and isinstance(arg0.value, int):
                    return "crng"
                return None
            ext = self.ext_of(fn, f)
            if ext and (ext in ("random." + c for c in RANDOM_CTORS) or
                        (ext.startswith("numpy.random.") and ext.split(".")[-1] in NP_RANDOM_CTORS)):
                if arg0 is None or (isinstance(arg0, ast.Constant) and arg0.value is None):
                    return "grng"
                k = self.kind_of(arg0, taint, fn)
                if k in ("seed", "rng", "val"):
                    return "rng"
                if isinstance(arg0, ast.Constant) and isinstance(arg0.value, int):
                    return "crng"
                return None
            if isinstance(f, ast.Attribute):
                kb = self.kind_of(f.value, taint, fn)
                if kb in ("rng", "seed"):
                    return "val"
                if kb == "grng":
                    return "gval"
            if isinstance(f, ast.Name):
                r = self.resolve_in_fn(fn, f.id)
                if r and r[0] == "cls":
                    init = self.find_init(r[1])
                    if init is not None and init.seed_param:
                        try:
                            a = self.seed_arg(e, init, bound=True)
                        except ValueError:
                            return None
                        if any(kw.arg is None for kw in e.keywords) and a is None:
                            return None
                        if a is not None:
                            k = self.kind_of(a, taint, fn)
                            if k in ("seed", "rng", "val"):
                                return "obj:" + r[1].qual
                            if isinstance(a, ast.Constant) and isinstance(a.value, int) and a.value is not None \
                                    and not isinstance(a.value, bool):
                                return "cobj:" + r[1].qual
                            if k in ("grng", "gval") or (isinstance(a, ast.Constant) and a.value is None):
                                return "uobj:" + r[1].qual
                        else:
                            # constructed here without a seed: an object of known class whose rng is
                            # the global generator (or a constant default)
                            d = init.seed_default
                            if isinstance(d, ast.Constant) and d.value is None:
                                return "uobj:" + r[1].qual
                            if isinstance(d, ast.Constant) and isinstance(d.value, int):
                                return "cobj:" + r[1].qual
        return None

    def find_init(self, c):
        for k in self.hierarchy(c):
            if "__init__" in k.methods and (k is c or k in self.ancestors(c)):
                return k.methods["__init__"]
        return None

    def ancestors(self, c):
        out = []

        def up(x):
            for b in x.bases:
                if b not in out:
                    out.append(b)
                    up(b)
        up(c)
        return out

    def seed_arg(self, call, callee, bound):
        """expression passed in callee's seed position at this call, or None if absent.
        Raises ValueError if it cannot be determined."""
        p = callee.seed_param
        for kw in call.keywords:
            if kw.arg == p:
                return kw.value
        if p in callee.params:
            idx = callee.params.index(p) - (1 if bound else 0)
            if idx < len(call.args):
                if any(isinstance(a, ast.Starred) for a in call.args[: idx + 1]):
                    raise ValueError("starred positional arguments before the seed position")
                return call.args[idx]
            if any(isinstance(a, ast.Starred) for a in call.args):
                raise ValueError("starred positional arguments may reach the seed position")
        return None

    def analyse(self, fn):
        cls = fn.cls
        taint = {}
        if fn.seed_param:
            taint[fn.seed_param] = "seed"
        # nested defs / lambdas with their own seed-named parameter share the name (flow-insensitive)
        if fn.kw_seeded:
            taint["**" + fn.varkw] = "seed"
        changed = True
        rounds = 0
        while changed and rounds < 10:
            changed = False
            rounds += 1
            for st in ast.walk(fn.node):
                tv = None
                if isinstance(st, ast.Assign) and len(st.targets) == 1:
                    tv = (st.targets[0], st.value)
                elif isinstance(st, ast.AnnAssign) and st.value is not None:
                    tv = (st.target, st.value)
                if tv is None:
                    continue
                t, v = tv
                key = None
                if isinstance(t, ast.Name):
                    key = t.id
                elif self.is_self_attr(t):
                    key = "self." + t.attr
                if key is None:
                    continue
                k = self.kind_of(v, taint, fn)
                if k and key not in taint:
                    taint[key] = k
                    changed = True
                elif k and taint[key] != k:
                    # `seed = rng.randint(..)` style re-binding: remember both
                    order = ["seed", "rng", "val", "crng", "grng", "gval"]
                    if "obj:" in k or "obj:" in taint[key]:
                        self.bad(fn.qual, "name %s bound to both %s and %s" % (key, taint[key], k))
                    elif order.index(k) > order.index(taint[key]) and k in ("grng", "gval"):
                        taint[key] = k
                        changed = True
        fn.taint = taint
        events = []
        consumed = set()

        def tainted_kind(e):
            return self.kind_of(e, taint, fn)

        def mark(e):
            for n in ast.walk(e):
                consumed.add(id(n))

        calls = [n for n in ast.walk(fn.node) if isinstance(n, ast.Call)]
        calls.sort(key=lambda n: (n.lineno, n.col_offset))
        nested = {n.name for n in ast.walk(fn.node)
                  if isinstance(n, (ast.FunctionDef, ast.AsyncFunctionDef)) and n is not fn.node}

        def classify(call, callee, bound, where):
            """what `callee` receives in its seed position"""
            if callee.seed_param is None:
                if callee.kw_seeded:
                    # seed travels inside **kwargs
                    for kw in call.keywords:
                        if kw.arg in SEED_NAMES:
                            return classify_expr(kw.value, where)
                        if kw.arg is None:
                            r = self.kwargs_has_seed(fn, kw.value, taint)
                            if r is not None:
                                return r
                    return PASS_NOTHING
                return None
            try:
                a = self.seed_arg(call, callee, bound)
            except ValueError as e:
                # *args forwarding: only the function's own *args/**kwargs pair is understood
                if fn.kw_seeded and any(kw.arg is None and isinstance(kw.value, ast.Name) and kw.value.id == fn.varkw
                                        for kw in call.keywords):
                    return PASS_SEED
                self.bad(where, "seed position of %s: %s" % (callee.qual, e))
                return PASS_NOTHING
            if a is None:
                for kw in call.keywords:
                    if kw.arg is None:
                        if isinstance(kw.value, ast.Name) and kw.value.id == fn.varkw and fn.kw_seeded:
                            return PASS_SEED
                        r = self.kwargs_has_seed(fn, kw.value, taint)
                        if r is not None:
                            return r
                d = callee.seed_default
                if d == "required":
                    self.bad(where, "required seed parameter of %s not passed" % callee.qual)
                    return PASS_NOTHING
                if isinstance(d, ast.Constant) and d.value is None:
                    return PASS_NOTHING
                if isinstance(d, ast.Constant) and isinstance(d.value, int):
                    return PASS_CONST
                self.bad(where, "default %s of the seed parameter of %s" % (src(d), callee.qual))
                return PASS_NOTHING
            return classify_expr(a, where)

        def classify_expr(a, where):
            mark(a)
            if isinstance(a, ast.Constant):
                if a.value is None:
                    return PASS_NONE
                if isinstance(a.value, int) and not isinstance(a.value, bool):
                    return PASS_CONST
                self.bad(where, "constant %r in a seed position" % (a.value,))
                return PASS_NOTHING
            k = tainted_kind(a)
            if k in ("seed", "rng"):
                return PASS_SEED
            if k == "val":
                return PASS_DERIVED
            if k == "crng":
                return PASS_CONST
            if k in ("grng", "gval"):
                return PASS_NONE
            if k and k.startswith("obj:"):
                return PASS_SEED
            if k and k.startswith("uobj:"):
                return PASS_NONE
            if k and k.startswith("cobj:"):
                return PASS_CONST
            self.bad(where, "unclassifiable expression `%s` in a seed position" % src(a))
            return PASS_NOTHING

        def add_call(callee, p, call):
            events.append(("call", callee.qual, p, call.lineno))

        def tainted_args(call):
            out = []
            for a in list(call.args) + [kw.value for kw in call.keywords]:
                e = a.value if isinstance(a, ast.Starred) else a
                k = tainted_kind(e)
                if k:
                    out.append((e, k))
            return out

        for call in calls:
            f = call.func
            where = "%s:%d" % (fn.qual, call.lineno)
            # ---- get_rng / rng constructors: primitive
            if self.is_get_rng(fn, f):
                for a in call.args + [kw.value for kw in call.keywords]:
                    mark(a)
                continue
            ext = self.ext_of(fn, f)
            if ext is not None:
                last = ext.split(".")[-1]
                if ext.startswith("random."):
                    if last in RANDOM_CTORS:
                        for a in call.args:
                            mark(a)
                        if tainted_kind(call) == "grng":
                            pass     # draws on it are recorded as global draws
                    else:
                        events.append(("global", ext, call.lineno))
                    continue
                if ext.startswith("numpy.random."):
                    if last in NP_RANDOM_CTORS:
                        for a in list(call.args) + [kw.value for kw in call.keywords]:
                            mark(a)
                    else:
                        events.append(("global", ext, call.lineno))
                    continue
                ta = tainted_args(call)
                if ta:
                    for e, k in ta:
                        mark(e)
                    fn.info.append(("ext_seeded", ext, call.lineno))
                if ext == "builtins.hash":
                    pass
                continue
            # ---- draws: method call on an rng-valued expression
            if isinstance(f, ast.Attribute):
                kb = tainted_kind(f.value)
                if kb in ("rng", "seed"):
                    mark(f.value)
                    events.append(("own", f.attr, call.lineno))
                    continue
                if kb == "crng":
                    mark(f.value)
                    fn.info.append(("const_rng_draw", f.attr, call.lineno))
                    continue
                if kb in ("grng",):
                    mark(f.value)
                    events.append(("global", "get_rng(None)." + f.attr, call.lineno))
                    continue
                if kb in ("val", "gval"):
                    mark(f.value)
                    continue
                if kb and kb.split(":")[0] in ("obj", "uobj", "cobj"):
                    mark(f.value)
                    c = self.fns_class(kb.split(":", 1)[1])
                    objpass = {"obj": PASS_SEED, "uobj": PASS_NOTHING, "cobj": PASS_CONST}[kb.split(":")[0]]
                    ms = self.lookup_method(c, f.attr, hier=False) or self.lookup_method(c, f.attr)
                    if not ms:
                        if f.attr in c.self_dyn:
                            ms = c.self_dyn[f.attr]
                        else:
                            self.bad(where, "method %s of seeded object %s not found" % (f.attr, kb))
                            continue
                    for mth in ms:
                        p = classify(call, mth, True, where) if mth.seed_param else objpass
                        add_call(mth, p, call)
                    continue
            # ---- call of a seeded object (e.g. gumbel generator)
            kc = tainted_kind(f)
            if kc and kc.split(":")[0] in ("obj", "uobj", "cobj"):
                mark(f)
                c = self.fns_class(kc.split(":", 1)[1])
                objpass = {"obj": PASS_SEED, "uobj": PASS_NOTHING, "cobj": PASS_CONST}[kc.split(":")[0]]
                ms = self.lookup_method(c, "__call__")
                if not ms:
                    self.bad(where, "seeded object %s is called but has no __call__" % kc)
                for mth in ms:
                    add_call(mth, objpass, call)
                continue
            # ---- statically resolvable callee
            targets = []   # (Fn, bound, via)
            opaque = None
            if isinstance(f, ast.Name):
                lc = self.local_callable_candidates(fn, f.id) if f.id in self.local_names(fn) else []
                if f.id in nested and not lc:
                    for e, k in tainted_args(call):
                        mark(e)
                    continue
                r = self.resolve_in_fn(fn, f.id)
                if lc:
                    # a local name bound to one of several module-level functions
                    # (e.g. {"basic": f1, "drift": f2}[mode] or functools.partial(f1, ...))
                    targets += [(c, False) for c in lc]
                    r = ("local", None)
                if r is not None and r[0] == "local":
                    pass
                elif r is None:
                    if f.id in BUILTIN_NAMES and f.id not in self.local_names(fn):
                        ta = tainted_args(call)
                        if ta and f.id not in ("isinstance", "type", "id", "repr", "str", "print", "int"):
                            for e, k in ta:
                                if k in ("seed", "rng", "grng"):
                                    submits = any(
                                        isinstance(c, ast.Call) and (
                                            (isinstance(c.func, ast.Name) and c.func.id == "submit") or
                                            (isinstance(c.func, ast.Attribute) and c.func.attr == "submit"))
                                        for c in ast.walk(fn.node))
                                    self.bad(where, "rng passed to builtin %s%s" % (f.id, (
                                        " -- in a function that submits tasks to a pool: a SHARED generator object handed "
                                        "to pool tasks makes the stream each task sees depend on the pool's scheduling order"
                                        if submits else "")))
                        for e, k in ta:
                            mark(e)
                        continue
                    opaque = f.id
                elif r[0] == "fn":
                    targets.append((r[1], False))
                elif r[0] == "cls":
                    init = self.find_init(r[1])
                    if init is not None:
                        targets.append((init, True))
                    else:
                        continue
                elif r[0] == "ext":
                    ta = tainted_args(call)
                    if ta:
                        for e, k in ta:
                            mark(e)
                        fn.info.append(("ext_seeded", r[1], call.lineno))
                    continue
                else:
                    opaque = f.id
            elif isinstance(f, ast.Attribute):
                base = f.value
                if isinstance(base, ast.Call) and isinstance(base.func, ast.Name) and base.func.id == "super" and cls:
                    for b in self.ancestors(cls):
                        if f.attr in b.methods:
                            targets.append((b.methods[f.attr], True))
                            break
                elif isinstance(base, ast.Name) and base.id == "self" and cls is not None:
                    ms = self.lookup_method(cls, f.attr)
                    if ms:
                        targets += [(mth, True) for mth in ms]
                    elif f.attr in cls.self_dyn:
                        targets += [(mth, False) for mth in cls.self_dyn[f.attr]]
                    elif getattr(fn, "spec", None) and f.attr in fn.spec:
                        targets += [(fn.spec[f.attr], False)]
                    else:
                        opaque = "self." + f.attr
                elif isinstance(base, ast.Name) and base.id not in self.local_names(fn) and \
                        (self.resolve_in_fn(fn, base.id) or (None,))[0] in ("mod", "inst", "cls"):
                    r = self.resolve_in_fn(fn, base.id)
                    if r[0] == "mod":
                        rr = self.resolve_name(r[1], f.attr)
                        if rr and rr[0] == "fn":
                            targets.append((rr[1], False))
                        elif rr and rr[0] == "cls" and self.find_init(rr[1]):
                            targets.append((self.find_init(rr[1]), True))
                        else:
                            continue
                    elif r[0] == "inst":
                        sp = self.specialise(r[1], f.attr)
                        if sp:
                            targets.append((sp, True))
                        else:
                            opaque = src(f)
                    else:   # Class.method(...)
                        ms = self.lookup_method(r[1], f.attr, hier=False)
                        targets += [(mth, False) for mth in ms]
                        if not ms:
                            continue
                else:
                    # unknown receiver: resolve by method name over the classes in scope
                    if f.attr in BUILTIN_METHODS:
                        ta = tainted_args(call)
                        for e, k in ta:
                            mark(e)
                        continue
                    if isinstance(base, ast.Name) and base.id not in self.local_names(fn):
                        r = self.resolve_in_fn(fn, base.id)
                        if r is None and base.id not in BUILTIN_NAMES:
                            pass
                    cands = []
                    for m in self.mods.values():
                        for c in m.classes.values():
                            for mth in self.lookup_method(c, f.attr, hier=False):
                                if mth not in [x for x, _ in cands]:
                                    cands.append((mth, c))
                    if not cands:
                        ta = tainted_args(call)
                        if ta:
                            for e, k in ta:
                                mark(e)
                            fn.info.append(("opaque_seeded", src(f), call.lineno))
                        else:
                            fn.info.append(("opaque", src(f), call.lineno))
                        continue
                    for mth, c in cands:
                        if mth.seed_param is None and (c.self_taint or self.uses_self_taint(mth)):
                            # object of unknown provenance: how it was seeded was decided where
                            # it was constructed, not here
                            fn.info.append(("opaque_object_method", mth.qual, call.lineno))
                            for e, k in tainted_args(call):
                                mark(e)
                        else:
                            targets.append((mth, mth.cls is not None))
            else:
                opaque = src(f)
            if opaque is not None:
                ta = tainted_args(call)
                for e, k in ta:
                    mark(e)
                fn.info.append(("opaque_seeded" if ta else "opaque", opaque, call.lineno))
                continue
            for callee, bound in targets:
                if callee.qual == "utils.get_rng":
                    continue
                p = classify(call, callee, bound, where)
                if p is None:
                    # callee has no seed position; a call through self keeps the object's state
                    if bound and isinstance(f, ast.Attribute) and isinstance(f.value, ast.Name) and f.value.id == "self":
                        p = PASS_SEED
                    elif bound and isinstance(f, ast.Attribute) and isinstance(f.value, ast.Call) and \
                            isinstance(f.value.func, ast.Name) and f.value.func.id == "super":
                        p = PASS_SEED
                    elif callee.cls is not None and callee.node.name == "__init__" and fn.cls is not None and \
                            callee.cls in self.ancestors(fn.cls):
                        p = PASS_SEED
                    else:
                        p = PASS_NOTHING
                    # an rng handed over in another position (e.g. a parameter called differently)
                    for e, k in tainted_args(call):
                        if k in ("seed", "rng"):
                            self.bad(where, "rng `%s` passed to %s which has no seed/rng parameter" % (src(e), callee.qual))
                        mark(e)
                else:
                    for e, k in tainted_args(call):
                        mark(e)
                add_call(callee, p, call)

        # ---- every other use of a seed-derived name must be of a recognised, harmless form
        for n in ast.walk(fn.node):
            if isinstance(n, ast.Name) and isinstance(n.ctx, ast.Load) and id(n) not in consumed:
                k = taint.get(n.id)
                if not k or k in ("val", "gval") or k.startswith(("uobj:", "cobj:")):
                    continue
                par = getattr(n, "parent", None)
                ok = False
                if isinstance(par, ast.Compare):
                    ok = True
                elif isinstance(par, (ast.Assign, ast.AnnAssign)) and par.value is n:
                    ok = True      # alias; handled by the taint fixpoint
                elif isinstance(par, ast.Attribute) and isinstance(getattr(par, "parent", None), ast.Call) \
                        and par.parent.func is par:
                    ok = True      # draw, handled above
                elif isinstance(par, ast.keyword) or isinstance(par, ast.Call):
                    ok = id(n) in consumed
                    if not ok:
                        # argument of a call that was skipped (builtin container method etc.)
                        ok = False
                elif isinstance(par, ast.Return) and fn.qual == "utils.get_rng":
                    ok = True
                elif isinstance(par, ast.BoolOp) or isinstance(par, ast.IfExp) or isinstance(par, ast.UnaryOp):
                    ok = True
                if fn.qual == "utils.get_rng":
                    ok = True
                if not ok:
                    self.bad("%s:%d" % (fn.qual, n.lineno),
                             "unrecognised use of seed-derived name `%s` (%s) in `%s`" % (n.id, k, src(par)[:80]))
            elif self.is_self_attr(n) and isinstance(n.ctx, ast.Load) and id(n) not in consumed and cls is not None:
                k = cls.self_taint.get(n.attr)
                if not k or k in ("val", "gval"):
                    continue
                par = getattr(n, "parent", None)
                ok = isinstance(par, (ast.Compare,)) or \
                    (isinstance(par, ast.Attribute) and isinstance(getattr(par, "parent", None), ast.Call)) or \
                    (isinstance(par, ast.Call) and par.func is n) or \
                    (isinstance(par, (ast.Assign,)) and par.value is n)
                if not ok:
                    self.bad("%s:%d" % (fn.qual, n.lineno),
                             "unrecognised use of seeded attribute self.%s in `%s`" % (n.attr, src(par)[:80]))
        # ---- hash-ordered iteration
        for what, expr, line in self.hash_iters(fn):
            key = (fn.qual, expr)
            if key in VETTED_SET_ITER:
                fn.info.append(("set_iter_vetted", expr, line))
            else:
                events.append(("hashiter", "%s %s" % (what, expr), line))
        fn.events = events

    def local_callable_candidates(self, fn, name):
        """module-level functions a local name may be bound to by plain assignments"""
        out = []

        def names_of(e):
            if isinstance(e, ast.Name):
                return [e.id]
            if isinstance(e, ast.Dict):
                return [x for v in e.values for x in names_of(v)]
            if isinstance(e, ast.Subscript):
                return names_of(e.value)
            if isinstance(e, ast.IfExp):
                return names_of(e.body) + names_of(e.orelse)
            if isinstance(e, (ast.Tuple, ast.List)):
                return [x for v in e.elts for x in names_of(v)]
            if isinstance(e, ast.Call) and src(e.func) in ("functools.partial", "partial") and e.args:
                return names_of(e.args[0])
            return []
        for n in ast.walk(fn.node):
            if isinstance(n, ast.Assign) and len(n.targets) == 1 and isinstance(n.targets[0], ast.Name) \
                    and n.targets[0].id == name:
                for nm in names_of(n.value):
                    if nm == name or nm in self.local_names(fn):
                        continue
                    r = self.resolve_name(fn.mod, nm)
                    if r and r[0] == "fn" and r[1] not in out:
                        out.append(r[1])
        return out

    def uses_self_taint(self, mth):
        c = mth.cls
        if c is None:
            return False
        for n in ast.walk(mth.node):
            if self.is_self_attr(n) and n.attr in c.self_taint:
                return True
        return False

    def fns_class(self, qual):
        mname, cname = qual.rsplit(".", 1)
        return self.mods[mname].classes[cname]

    def kwargs_has_seed(self, fn, e, taint):
        """`**e` at a call: does the dict carry a 'seed' entry?  returns a pass kind or None (no)"""
        dicts = []
        if isinstance(e, ast.Dict):
            dicts = [e]
        elif isinstance(e, ast.Name):
            name = e.id
            # for name in <seq> / comprehension target iterating a list of dict literals
            seqs = []
            for n in ast.walk(fn.node):
                if isinstance(n, ast.comprehension) and isinstance(n.target, ast.Name) and n.target.id == name:
                    seqs.append(n.iter)
                elif isinstance(n, ast.For) and isinstance(n.target, ast.Name) and n.target.id == name:
                    seqs.append(n.iter)
                elif isinstance(n, ast.Assign) and len(n.targets) == 1 and isinstance(n.targets[0], ast.Name) \
                        and n.targets[0].id == name and isinstance(n.value, ast.Dict):
                    dicts.append(n.value)
                elif isinstance(n, ast.Assign) and len(n.targets) == 1 and isinstance(n.targets[0], ast.Name) \
                        and n.targets[0].id == name and isinstance(n.value, ast.Call) \
                        and isinstance(n.value.func, ast.Name) and n.value.func.id == "dict" and not n.value.args:
                    # dict(k=v, ...) is the same as {"k": v, ...}
                    d = ast.Dict(keys=[ast.Constant(value=kw.arg) for kw in n.value.keywords if kw.arg],
                                 values=[kw.value for kw in n.value.keywords if kw.arg])
                    dicts.append(d)
            for s in seqs:
                if isinstance(s, ast.Name):
                    for n in ast.walk(fn.node):
                        if isinstance(n, ast.Assign) and len(n.targets) == 1 and isinstance(n.targets[0], ast.Name) \
                                and n.targets[0].id == s.id and isinstance(n.value, (ast.ListComp, ast.List)):
                            els = [n.value.elt] if isinstance(n.value, ast.ListComp) else n.value.elts
                            dicts += [d for d in els if isinstance(d, ast.Dict)]
        res = None
        for d in dicts:
            for k, v in zip(d.keys, d.values):
                if isinstance(k, ast.Constant) and k.value in SEED_NAMES:
                    kd = self.kind_of(v, taint, fn)
                    if kd in ("seed", "rng"):
                        res = PASS_SEED
                    elif kd == "val":
                        res = PASS_DERIVED
                    elif isinstance(v, ast.Constant) and isinstance(v.value, int) and not isinstance(v.value, bool):
                        res = PASS_CONST
                    elif isinstance(v, ast.Constant) and v.value is None:
                        res = PASS_NONE
                    else:
                        self.bad("%s:%d" % (fn.qual, v.lineno), "unclassifiable 'seed' entry `%s` of a kwargs dict" % src(v))
        return res

    # ------------------------------------------------------------------ set iteration
    def set_typed(self, e, setvars, fn):
        if isinstance(e, (ast.Set, ast.SetComp)):
            return True
        if isinstance(e, ast.Call):
            if isinstance(e.func, ast.Name) and e.func.id in ("set", "frozenset") and e.func.id not in self.local_names(fn):
                return bool(e.args)   # set() is empty
            if isinstance(e.func, ast.Attribute) and e.func.attr in (
                    "union", "intersection", "difference", "symmetric_difference", "copy") \
                    and self.set_typed(e.func.value, setvars, fn):
                return True
            if src(e.func) in ("set.union", "set.intersection"):
                return True
        if isinstance(e, ast.Name):
            return e.id in setvars
        if self.is_self_attr(e) and fn.cls is not None:
            return e.attr in fn.cls.self_sets
        if isinstance(e, ast.BinOp) and isinstance(e.op, (ast.BitOr, ast.BitAnd, ast.Sub, ast.BitXor)):
            return self.set_typed(e.left, setvars, fn) or self.set_typed(e.right, setvars, fn)
        return False

    def int_elements(self, e, fn):
        """syntactic evidence that the elements of set expression e are integers"""
        if isinstance(e, ast.Call) and isinstance(e.func, ast.Name) and e.func.id in ("set", "frozenset") and e.args:
            a = e.args[0]
            if isinstance(a, ast.Call) and isinstance(a.func, ast.Name) and a.func.id == "range":
                return True
        return False

    def hash_iters(self, fn):
        setvars = set()
        for _ in range(3):
            for n in ast.walk(fn.node):
                if isinstance(n, ast.Assign) and len(n.targets) == 1 and isinstance(n.targets[0], ast.Name):
                    if self.set_typed(n.value, setvars, fn) or (
                            isinstance(n.value, ast.Call) and isinstance(n.value.func, ast.Name)
                            and n.value.func.id in ("set", "frozenset") and not n.value.args):
                        setvars.add(n.targets[0].id)
        out = []

        def flag(what, e, line):
            if not self.int_elements(e, fn):
                out.append((what, src(e), line))

        # an iterable / a poll whose order is the order in which pool tasks COMPLETE is decided by the scheduler, not
        # by the seed: as_completed / gather-like helpers, imap_unordered, polling future.done()
        for n in ast.walk(fn.node):
            if isinstance(n, ast.Call):
                nm = n.func.id if isinstance(n.func, ast.Name) else (n.func.attr if isinstance(n.func, ast.Attribute) else None)
                if nm in COMPLETION_ORDER_CALLS:
                    out.append(("completion-order (pool scheduling) iteration", src(n)[:60], n.lineno))
                elif nm == "done" and isinstance(n.func, ast.Attribute) and not n.args:
                    out.append(("completion-order (pool scheduling) poll", src(n)[:60], n.lineno))
        for n in ast.walk(fn.node):
            if isinstance(n, ast.For) and self.set_typed(n.iter, setvars, fn):
                flag("for-in", n.iter, n.lineno)
            elif isinstance(n, ast.comprehension) and self.set_typed(n.iter, setvars, fn):
                # a set built from a set is not an ordered observation by itself
                par = getattr(n, "parent", None)
                if isinstance(par, ast.SetComp):
                    continue
                flag("comprehension-in", n.iter, n.iter.lineno)
            elif isinstance(n, ast.Call):
                f = n.func
                if isinstance(f, ast.Name) and f.id in ("list", "tuple", "enumerate", "zip", "map", "iter", "next", "reversed") \
                        and f.id not in self.local_names(fn):
                    for a in n.args:
                        if self.set_typed(a, setvars, fn):
                            flag(f.id, a, n.lineno)
                elif isinstance(f, ast.Name) and f.id in ("sorted", "min", "max") and any(kw.arg == "key" for kw in n.keywords):
                    for a in n.args:
                        if self.set_typed(a, setvars, fn):
                            flag(f.id + "-with-key", a, n.lineno)
                elif isinstance(f, ast.Attribute) and f.attr == "pop" and not n.args and not n.keywords \
                        and self.set_typed(f.value, setvars, fn):
                    flag("set.pop", f.value, n.lineno)
                elif isinstance(f, ast.Attribute) and f.attr == "join":
                    for a in n.args:
                        if self.set_typed(a, setvars, fn):
                            flag("join", a, n.lineno)
            elif isinstance(n, ast.Starred) and self.set_typed(n.value, setvars, fn):
                flag("star", n.value, n.lineno)
        return out

    # ------------------------------------------------------------------ specialised instances
    def specialise(self, inst, meth):
        c, args, qual = inst
        key = qual + "." + meth
        if key in self.spec_nodes:
            return self.spec_nodes[key]
        ms = self.lookup_method(c, meth, hier=False)
        if not ms:
            return None
        base = ms[0]
        init = self.find_init(c)
        spec = {}
        if init is not None:
            ps = init.params[1:]
            for attr, pname in c.ctor_attr.items():
                if pname in ps and ps.index(pname) < len(args):
                    r = args[ps.index(pname)]
                    if r and r[0] == "fn":
                        spec[attr] = r[1]
        fn = Fn(key, base.node, base.mod, base.cls)
        fn.spec = spec
        fn.spec_of = (qual, c.qual)
        fn.is_spec = True
        self.spec_nodes[key] = fn
        self.fns[key] = fn
        return fn

    # ------------------------------------------------------------------ driver
    def run(self):
        self.load()
        self.check_get_rng()
        for m in self.mods.values():
            for c in m.classes.values():
                self.class_taints(c)
            for c in m.classes.values():
                for mm in c.methods.values():
                    for n in ast.walk(mm.node):
                        if isinstance(n, ast.Assign) and len(n.targets) == 1 and self.is_self_attr(n.targets[0]):
                            v = n.value
                            if isinstance(v, (ast.Set, ast.SetComp)) or (
                                    isinstance(v, ast.Call) and isinstance(v.func, ast.Name) and v.func.id in ("set", "frozenset")):
                                c.self_sets.add(n.targets[0].attr)
        # decorators of seeded functions: a memoising / wrapping decorator can make the result depend on earlier calls
        # (a cached return value is shared with, and can be edited by, every caller) -- fail closed on anything that is
        # not on the whitelist
        for fn in list(self.fns.values()):
            if not fn.seed_param:
                continue
            for d in fn.node.decorator_list:
                text = src(d)
                base = text.split("(")[0].split(".")[-1]
                if base not in DECORATOR_WHITELIST:
                    self.bad("%s:%d" % (fn.qual, fn.node.lineno),
                             "decorator @%s on a function with a %s parameter (memoising / wrapping decorators can return an "
                             "object shared with earlier callers: the result is then not a function of arguments and seed)"
                             % (text[:60], fn.seed_param))
        # kw-seeded wrappers: forward their own **kwargs to a seed-accepting callee (fixpoint)
        changed = True
        while changed:
            changed = False
            for fn in list(self.fns.values()):
                if fn.kw_seeded or fn.seed_param or not fn.varkw:
                    continue
                for call in ast.walk(fn.node):
                    if not isinstance(call, ast.Call):
                        continue
                    if not any(kw.arg is None and isinstance(kw.value, ast.Name) and kw.value.id == fn.varkw
                               for kw in call.keywords):
                        continue
                    f = call.func
                    cands = []
                    if isinstance(f, ast.Name):
                        r = self.resolve_in_fn(fn, f.id)
                        if r and r[0] == "fn":
                            cands = [r[1]]
                    elif isinstance(f, ast.Attribute):
                        if isinstance(f.value, ast.Name) and f.value.id == "self" and fn.cls is not None:
                            cands = self.lookup_method(fn.cls, f.attr)
                        elif f.attr not in BUILTIN_METHODS:
                            for m in self.mods.values():
                                for c in m.classes.values():
                                    cands += self.lookup_method(c, f.attr, hier=False)
                    if any(c.accepts_seed for c in cands):
                        fn.kw_seeded = True
                        changed = True
                        break
        # public seeded APIs
        apis = []   # (api name, kind, [entry quals])
        for mname, m in sorted(self.mods.items()):
            if any(p.startswith("_") for p in mname.split(".")):
                continue
            for name, fn in sorted(m.funcs.items()):
                if fn.seed_param == "seed" and not name.startswith("_") and fn.qual != "utils.get_rng":
                    apis.append((fn.qual, "function", [(fn.qual, PASS_SEED)]))
            for cname, c in sorted(m.classes.items()):
                if cname.startswith("_"):
                    continue
                init = c.methods.get("__init__")
                if init is not None and init.seed_param == "seed":
                    entries = [(init.qual, PASS_SEED)]
                    seen = {init.qual}
                    for k in [c] + self.ancestors(c):
                        for nm, mth in sorted(k.methods.items()):
                            if (not nm.startswith("_") or nm == "__call__") and mth.qual not in seen \
                                    and nm not in {x.split(".")[-1] for x in seen}:
                                seen.add(mth.qual)
                                entries.append((mth.qual, PASS_SEED))
                    apis.append((c.qual, "class", entries))
                for nm, mth in sorted(c.methods.items()):
                    if mth.seed_param == "seed" and not nm.startswith("_"):
                        apis.append((mth.qual, "method", [(mth.qual, PASS_SEED)]))
                for nm, (kind, tgt) in sorted(c.aliases.items()):
                    if kind == "name" and not nm.startswith("_"):
                        for mth in self.lookup_method(c, nm, hier=False):
                            if mth.seed_param == "seed":
                                apis.append((c.qual + "." + nm, "method", [(mth.qual, PASS_SEED)]))
            for iname in sorted(m.instances):
                if iname.startswith("_"):
                    continue
                r = self.resolve_name(m, iname)
                if r and r[0] == "inst":
                    c = r[1][0]
                    for nm, mth in sorted(c.methods.items()):
                        if mth.seed_param == "seed" and not nm.startswith("_"):
                            sp = self.specialise(r[1], nm)
                            apis.append((sp.qual, "instance-method", [(sp.qual, PASS_SEED)]))
        self.apis = apis
        # analyse everything reachable
        done = set()
        work = []
        for _, _, entries in apis:
            work += [q for q, _ in entries]
        while work:
            q = work.pop()
            if q in done:
                continue
            done.add(q)
            fn = self.fns[q]
            try:
                self.analyse(fn)
            except RecursionError:
                self.bad(q, "recursion limit while analysing")
                continue
            for ev in fn.events:
                if ev[0] == "call" and ev[1] not in done:
                    work.append(ev[1])
        self.reachable = sorted(done)
        return self

    # ------------------------------------------------------------------ output
    def to_json(self):
        ids = {q: i for i, q in enumerate(self.reachable)}
        nodes = []
        for q in self.reachable:
            fn = self.fns[q]
            nodes.append({
                "id": ids[q], "name": q, "line": fn.lineno, "file": os.path.relpath(fn.mod.path, self.repo),
                "seed_param": fn.seed_param, "kw_seeded": fn.kw_seeded,
                "events": [list(e) for e in fn.events], "info": [list(i) for i in fn.info],
                "draws_own": any(e[0] == "own" for e in fn.events),
                "draws_global": any(e[0] == "global" for e in fn.events),
                "hash_iter": any(e[0] == "hashiter" for e in fn.events),
                "def_name": fn.node.name, "cls": fn.cls.qual if fn.cls else None,
            })
        apis = []
        base = len(nodes)
        for k, (name, kind, entries) in enumerate(self.apis):
            apis.append({"name": name, "kind": kind, "id": base + k, "entries": [[ids[q], p] for q, p in entries]})
        return {"repo": self.repo, "nodes": nodes, "apis": apis, "untranslatable": self.untranslatable,
                "notes": self.notes}

    def to_coq(self, js=None):
        js = js or self.to_json()
        L = []
        L.append("(* GENERATED by harness/translators/seedflow.py from the cotengra source -- do not edit.")
        L.append("   Seed-flow graph: node k of `graph` is the k-th body below; bodies of the public seeded")
        L.append("   APIs are the last entries (an API calls its entry points with the seed it was given). *)")
        L.append("From Coq Require Import List String.")
        L.append("From Ctg Require Import SeedSem.")
        L.append("Import ListNotations.")
        L.append("Open Scope string_scope.")
        L.append("")
        L.append("Definition untranslatable_count : nat := %d." % len(js["untranslatable"]))
        L.append("")
        L.append("Definition graph : sgraph := [")
        rows = []
        for n in js["nodes"]:
            evs = []
            for e in n["events"]:
                if e[0] == "own":
                    evs.append("EDrawOwn")
                elif e[0] == "global":
                    evs.append("EDrawGlobal")
                elif e[0] == "hashiter":
                    evs.append("EHashIter")
                elif e[0] == "call":
                    callee = [m["id"] for m in js["nodes"] if m["name"] == e[1]][0]
                    evs.append("ECall %d %s" % (callee, e[2]))
            flags = [f for f in ("draws_own", "draws_global", "hash_iter") if n[f]]
            rows.append("  (* %3d %s%s *)\n  [%s]" % (n["id"], n["name"], ("  {" + ",".join(flags) + "}") if flags else "",
                                                     "; ".join(evs)))
        for a in js["apis"]:
            evs = ["ECall %d %s" % (i, p) for i, p in a["entries"]]
            rows.append("  (* %3d API %s (%s) *)\n  [%s]" % (a["id"], a["name"], a["kind"], "; ".join(evs)))
        L.append(";\n".join(rows))
        L.append("].")
        L.append("")
        L.append("Definition node_names : list (nat * string) := [")
        L.append(";\n".join('  (%d, "%s")' % (n["id"], n["name"]) for n in js["nodes"]))
        L.append("].")
        L.append("")
        L.append("(* public operations that accept a seed: name, node *)")
        L.append("Definition api_table : list (string * nat) := [")
        L.append(";\n".join('  ("%s", %d)' % (a["name"], a["id"]) for a in js["apis"]))
        L.append("].")
        L.append("")
        return "\n".join(L)


def translate(repo, out_v=None, out_json=None):
    t = Translator(repo).run()
    js = t.to_json()
    if out_v:
        os.makedirs(os.path.dirname(out_v), exist_ok=True)
        text = t.to_coq(js)
        old = open(out_v).read() if os.path.exists(out_v) else None
        if old != text:
            with open(out_v, "w") as f:
                f.write(text)
    if out_json:
        with open(out_json, "w") as f:
            json.dump(js, f, indent=1)
    return js


if __name__ == "__main__":
    repo = sys.argv[1] if len(sys.argv) > 1 else os.environ.get("VERIF_REPO", "/repo")
    js = translate(repo, *(sys.argv[2:4]))
    print("nodes", len(js["nodes"]), "apis", len(js["apis"]), "untranslatable", len(js["untranslatable"]))
    for u in js["untranslatable"]:
        print("  UNTRANSLATABLE", u)
    for a in js["apis"]:
        print("  API", a["name"], a["kind"], len(a["entries"]))

"""Per-property metadata from which MANIFEST.json is generated (tools/gen_manifest.py).
A property appears under `checks` once harness/props/cNN.py and coq/Props/CNN.v exist."""

TRUSTED = ("Trusted: Coq 8.16.1 kernel (coqc, vm_compute; no native_compute; no axioms declared; "
           "Print Assumptions of every theorem is checked on each run); the hand-written Gallina model is tied to "
           "/repo by the executed correspondence (differential run of model and code on generated cases, each run); "
           "Python harness, generators and the independent oracle; numpy kernels are modelled, not verified.")

PROPS = {
    "C03": dict(
        technique="Coq proof (induction over trees) of a hand-written Gallina model of ContractionTree's cost figures + executed model/code correspondence + independent cost oracle",
        text=("Theorems (Props/C03.v, closed under the global context) prove for every network, tree and removed-index set that the "
              "model's per-node legs/involved/size/flops, totals and max equal the definition from the network alone and that slicing "
              "scales them by exactly the sliced dimension. The model (Model/Net.v) is compared with ContractionTree.get_legs/"
              "get_involved/get_size/get_flops/contract_stats/peak_size on generated networks each run, and the implementation is "
              "judged end-to-end against an independent cost evaluator and the shapes actually produced while contracting."),
        design_ref="DESIGN.md section 6 C03",
        note=TRUSTED),
}
